(* Props/C19.v — C19: per-file live/dead accounting always matches the files' real contents. *)
From BC Require Import Store.Engine Store.Log Store.Step Store.Cons Store.Inv Store.Refine Store.Merge Store.Theorems Store.Pinned.
Open Scope N_scope.

(* Ground truth ([Store/Log.v]): a record at (file, offset) is live iff the index entry of its key
   denotes exactly that (file, offset); [nlive]/[ndead]/[bdead] count the live records, the other
   records and the bytes of the other records of one file. *)

(* 1. In every state reachable by a crash-free history (sets, deletes of present and absent keys,
      merges of whatever subset the thresholds select, reopen cycles rebuilding from data files and
      from hint files), the counters of every file equal ground truth, and a file has a counter row
      exactly when it holds at least one record. *)
Theorem C19_counters_exact : forall c s, reachable c s -> forall g,
  live (sget0 (s_stats s) g) = nlive (slog s) (s_idx s) g /\
  dead (sget0 (s_stats s) g) = ndead (slog s) (s_idx s) g /\
  dead_bytes (sget0 (s_stats s) g) = bdead (slog s) (s_idx s) g /\
  (sget (s_stats s) g = None <-> has_file (slog s) g = false).
Proof. intros c s Hr. exact (counters_exact s (reachable_inv c s Hr)). Qed.
Print Assumptions C19_counters_exact.

(* 2. The index itself is exact: each key's entry is the location of its latest value record. *)
Theorem C19_index_exact : forall c s, reachable c s -> forall k, iget (s_idx s) k = lastloc (slog s) k None.
Proof. intros c s Hr. exact (index_exact s (reachable_inv c s Hr)). Qed.
Print Assumptions C19_index_exact.

(* 3. `live_keys -= 1` never underflows: no step of a ready script ends in the panic outcome the
      model gives to an underflow (nor in any other failure). *)
Theorem C19_no_underflow : forall c s o, reachable c s -> op_ready c s o -> normal (snd (fst (step c s o))) = true.
Proof. intros c s o Hr. exact (no_underflow c s o (reachable_inv c s Hr)). Qed.
Print Assumptions C19_no_underflow.

(* 4. The single-step form used above: appending any record keeps counters exact, with the code's
      own arithmetic ([stats_step] is what put, delete and both recovery scans compute). *)
Theorem C19_step : forall L i x f p e, wfL (L ++ [(f, p, e)]) -> cons L i x ->
  exists x', stats_step x i (f, p, e) = Some x' /\ cons (L ++ [(f, p, e)]) (idx_step i (f, p, e)) x'.
Proof. exact step_full. Qed.
Print Assumptions C19_step.

(* The pinned recovery violated it (D1): after set k v; del k; reopen, file 0 is counted as holding
   one live key although no key's current value lives in it. *)
Theorem C19_pinned_refuted :
  let s := fst (fst (run (mkCfg 1000 false 1 1 1000 0) init [OSet [107] [118]; ODel [107]])) in
  match rebuild_files_pinned (s_dir s) ([], []) with
  | Some (i, x) => live (sget0 x 0) = 1 /\ nlive (slog s) (s_idx s) 0 = 0
  | None => False
  end.
Proof. vm_compute. split; reflexivity. Qed.
Print Assumptions C19_pinned_refuted.

Example C19_example :
  let c := mkCfg 60 false 0 1 0 1000000000 in
  let s := fst (fst (run c init [OSet [65] [1]; OSet [65] [2]; OSet [66] [3]; ODel [66]; ODel [67]; OReopen])) in
  sget0 (s_stats s) 0 = mkCnt 1 2 54 /\ sget0 (s_stats s) 1 = mkCnt 0 2 36 /\ sget (s_stats s) 2 = None.
Proof. vm_compute. repeat split. Qed.
