(* Props/C14.v — C14: data files are append-only and immutable, with ids that only grow.
   The property is decided by a monitor ([disc_run], Store/Trace.v) over the mutating system calls a
   process issues; the monitor is evaluated inside Coq on every trace recorded from the REAL store
   (LD_PRELOAD recorder) and the recorded traces are also compared call by call with the model's.
   The theorems below say what acceptance by the monitor guarantees.  The vocabulary of the monitor
   (create / append-write / fsync / unlink) has no truncate, rename, positional write or re-open for
   writing: the recorder reports those separately and any occurrence is a violation. *)
From BC Require Import Store.Engine Store.Trace Store.Theorems Store.Discipline.
From BC Require Resp.Frame Resp.Conn Resp.OverEngine Resp.ServerStore.
Open Scope N_scope.

(* 1. Every data file is created under a name that does not exist, with an id greater than every id
      the directory held when the process started and every id created since. *)
Theorem C14_ids_only_grow : forall maxsize m0 pre i post m',
  disc_run maxsize m0 (pre ++ SCreate (FData i) :: post) = Some m' ->
  exists m1, disc_run maxsize m0 pre = Some m1 /\ gt_max (mn_max m1) i = true /\ max_le (mn_max m0) (mn_max m1) /\
             fsize_of (mn_files m1) (FData i) = None.
Proof. exact monitor_ids_grow. Qed.
Print Assumptions C14_ids_only_grow.

(* 2. Every write appends to the data file this process created last, or to its hint file: never to
      a file found at start-up, never to a file once a newer data file exists; and a data file is
      only extended while it does not yet exceed the configured maximum (so it overshoots by less
      than one entry). *)
Theorem C14_writes_only_extend_newest : forall maxsize m0 pre f b post m',
  disc_run maxsize m0 (pre ++ SWrite f b :: post) = Some m' ->
  exists m1, disc_run maxsize m0 pre = Some m1 /\ mn_cur m1 = Some (fid f) /\
             exists z, fsize_of (mn_files m1) f = Some z /\ (match f with FData _ => z <= maxsize | FHint _ => True end).
Proof. exact monitor_write_target. Qed.
Print Assumptions C14_writes_only_extend_newest.

(* 3. A process writes nothing before it has created a file of its own (files left by a previous
      process, or by a crash, are never reopened for writing). *)
Theorem C14_no_write_to_inherited_files : forall maxsize files f b post m',
  disc_run maxsize (mon_init files) (SWrite f b :: post) = Some m' -> False.
Proof. exact monitor_no_write_before_create. Qed.
Print Assumptions C14_no_write_to_inherited_files.

(* 4. The largest id ever seen never decreases along an accepted trace. *)
Theorem C14_max_id_monotone : forall maxsize tr m m', disc_run maxsize m tr = Some m' -> max_le (mn_max m) (mn_max m').
Proof. exact disc_run_max. Qed.
Print Assumptions C14_max_id_monotone.

(* 5. THE property for the model: the monitor accepts the whole trace of a process that opens an empty
      directory and then runs ANY ready script of sets, gets, deletes, reopens and merges — so by 1-4
      every data file the store ever creates has a fresh id above all earlier ones, every write goes
      to the data file created last or its hint file, and no data file is extended beyond the maximum
      size.  (Store/Discipline.v: a monitor over the byte-level file system of Store/Crash.v is run
      forward along the trace of each operation — through the merge loop, the unlinks and the
      rollovers — and is simulated by the list-based monitor.) *)
Theorem C14_model_traces_accepted : forall c ops, run_ready c init ops ->
  disc_ok (c_max c) (mon_init []) (SCreate (FData 0) :: snd (run c init ops)) = true.
Proof. exact model_traces_accepted. Qed.
Print Assumptions C14_model_traces_accepted.

(* ... for the SERVER (Resp/ServerStore.v): the system calls caused by the commands of any connection, whatever bytes
   it sends, are accepted by the monitor. *)
Theorem C14_server_traces_accepted : forall c segs,
  disc_ok (c_max c) (mon_init []) (SCreate (FData 0) :: snd (run c init (Resp.OverEngine.script_of (Resp.Conn.read_all (Resp.Frame.fixed Resp.Frame.Release) segs [])))) = true.
Proof. exact Resp.ServerStore.server_traces_accepted. Qed.
Print Assumptions C14_server_traces_accepted.

(* Non-vacuity: the model's own trace of a script with rollovers, a merge and a reopen is accepted;
   a trace that reuses an id, or writes to the older file after a rollover, is rejected. *)
Example C14_model_trace_accepted :
  let c := mkCfg 60 false 0 1 0 1000000000 in
  let ops := [OSet [65] [1; 1; 1]; OSet [65] [2]; OSet [66] [3; 3]; ODel [66]; OMerge [[65]]; OSet [67] []; OReopen; OSet [65] []] in
  disc_ok 60 (mon_init []) (SCreate (FData 0) :: snd (run c init ops)) = true.
Proof. vm_compute. reflexivity. Qed.
Example C14_reused_id_rejected :
  disc_ok 60 (mon_init []) [SCreate (FData 0); SWrite (FData 0) [1]; SCreate (FData 1); SUnlink (FData 0); SCreate (FData 0)] = false.
Proof. vm_compute. reflexivity. Qed.
Example C14_write_to_older_rejected :
  disc_ok 60 (mon_init []) [SCreate (FData 0); SWrite (FData 0) [1]; SCreate (FData 1); SWrite (FData 0) [2]] = false.
Proof. vm_compute. reflexivity. Qed.

(* Each run of `bin/check C14` additionally evaluates the monitor on the recorded REAL trace of every
   generated script and compares that trace call by call with the model's. *)
