(* Props/C15.v — C15: the connection limit holds and slots are never leaked.
   Model: Sys/Limit.v, the permit handling of Listener::listen and Handler's Drop.  The semaphore,
   and that Drop runs however a task ends (also on a panic), are runtime behaviour: partial. *)
From Coq Require Import List Arith.
Import ListNotations.
From BC Require Import Sys.Limit.

(* 1. In every reachable state, permits + connections being served + the permit the listener may
      hold add up to the configured maximum. *)
Theorem C15_balanced : forall max es s, run (init max) es = Some s -> balanced max s.
Proof. intros max es s E. exact (run_balanced max es _ _ (init_balanced max) E). Qed.
Print Assumptions C15_balanced.

(* 2. Hence at no time are more than the maximum being served. *)
Theorem C15_limit_holds : forall max es s, run (init max) es = Some s -> serving s <= max.
Proof. exact limit_holds. Qed.
Print Assumptions C15_limit_holds.

(* 3. A slot comes back whenever a connection ends, whatever the reason: once none is being served,
      every permit is available again ... *)
Theorem C15_no_leak : forall max es s, run (init max) es = Some s -> serving s = 0 -> listener s <> LStopped ->
  permits s + held s = max.
Proof. exact no_leak. Qed.
Print Assumptions C15_no_leak.

Theorem C15_ending_irrelevant : forall s w1 w2, step s (HandlerEnd w1) = step s (HandlerEnd w2).
Proof. exact ending_irrelevant. Qed.
Print Assumptions C15_ending_irrelevant.

(* 4. ... and the server can serve the full configured number concurrently again. *)
Theorem C15_full_capacity_again : forall max es s, run (init max) es = Some s -> serving s = 0 -> listener s = LWaiting ->
  exists s', run s (accepts max) = Some s' /\ serving s' = max.
Proof. exact full_capacity_again. Qed.
Print Assumptions C15_full_capacity_again.

Example C15_example :
  run (init 2) [Acquire; Accept; Acquire; Accept; HandlerEnd ByPanic; Acquire; Accept; HandlerEnd ByProtocolError; HandlerEnd ByClientClose]
  = Some (mkSys 2 LWaiting 0) /\
  run (init 2) [Acquire; Accept; Acquire; Accept; Acquire] = None.
Proof. split; reflexivity. Qed.
