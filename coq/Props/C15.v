(* Props/C15.v — C15: the connection limit holds and slots are never leaked.
   Model: Sys/Limit.v, the permit handling of Listener::listen and Handler's Drop.  The semaphore,
   and that Drop runs however a task ends (also on a panic), are runtime behaviour: partial. *)
From Coq Require Import List Arith.
Import ListNotations.
From BC Require Import Sys.Limit Sys.LimitRun.

(* 1. In every reachable state, permits + connections being served + the permit the listener may
      hold add up to the configured maximum. *)
Theorem C15_balanced : forall max es s, run (init max) es = Some s -> balanced max s.
Proof. intros max es s E. exact (run_balanced max es _ _ (init_balanced max) E). Qed.
Print Assumptions C15_balanced.

(* 2. Hence at no time are more than the maximum being served. *)
Theorem C15_limit_holds : forall max es s, run (init max) es = Some s -> serving s <= max.
Proof. exact limit_holds. Qed.
Print Assumptions C15_limit_holds.

(* 3. A slot comes back whenever a connection ends, whatever the reason: once none is being served,
      every permit is available again ... *)
Theorem C15_no_leak : forall max es s, run (init max) es = Some s -> serving s = 0 -> listener s <> LStopped ->
  permits s + held s = max.
Proof. exact no_leak. Qed.
Print Assumptions C15_no_leak.

Theorem C15_ending_irrelevant : forall s w1 w2, step s (HandlerEnd w1) = step s (HandlerEnd w2).
Proof. exact ending_irrelevant. Qed.
Print Assumptions C15_ending_irrelevant.

(* 4. ... and the server can serve the full configured number concurrently again. *)
Theorem C15_full_capacity_again : forall max es s, run (init max) es = Some s -> serving s = 0 -> listener s = LWaiting ->
  exists s', run s (accepts max) = Some s' /\ serving s' = max.
Proof. exact full_capacity_again. Qed.
Print Assumptions C15_full_capacity_again.

(* 5. The model that the check compares with the real server — clients with identities opening connections,
      served connections ending in any way, waiting clients giving up, the listener and the handlers running as
      far as they can after every action — only ever takes steps of the transition system above: every world it
      reaches is a reachable state (so 1-4 apply to it), the served connections are exactly the ones counted, and
      never more than the maximum are served. *)
Theorem C15_eager_scheduler_is_a_run : forall max acts,
  run (init max) (rev (trace (play max acts))) = Some (sy (play max acts)) /\
  length (served (play max acts)) = serving (sy (play max acts)).
Proof. exact world_reachable. Qed.
Print Assumptions C15_eager_scheduler_is_a_run.

Theorem C15_served_never_above_max : forall max acts, length (served (play max acts)) <= max.
Proof. exact play_limit. Qed.
Print Assumptions C15_served_never_above_max.

Example C15_example :
  run (init 2) [Acquire; Accept; Acquire; Accept; HandlerEnd ByPanic; Acquire; Accept; HandlerEnd ByProtocolError; HandlerEnd ByClientClose]
  = Some (mkSys 2 LWaiting 0) /\
  run (init 2) [Acquire; Accept; Acquire; Accept; Acquire] = None.
Proof. split; reflexivity. Qed.

Example C15_eager_example :
  let w := play 2 [AOpen; AOpen; AOpen; AOpen; AEndServed 0 ByPanic; ADropPending 0; AEndServed 1 ByProtocolError] in
  served w = [1] /\ alive_ids (pend w) = [] /\ permits (sy w) = 0 /\ listener (sy w) = LHolding.
Proof. vm_compute. repeat split. Qed.
