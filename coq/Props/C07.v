(* Props/C07.v — the RESP parser is total and reads numbers exactly. *)
From BC Require Import Resp.Frame.
