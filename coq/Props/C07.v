(* Props/C07.v — C07: the RESP parser is total and reads numbers exactly.
   Statements only; every proof is [exact <lemma>] into Resp/IntProofs.v and Resp/FrameProofs.v.
   Model: Resp/Frame.v, [fixed b] = src/net/frame.rs after the D4-D7 repairs, [pinned b s] = before. *)
From BC Require Import Resp.Frame Resp.IntProofs Resp.FrameProofs.
Open Scope Z_scope.

(* 1. Totality: for every byte string, in debug and release builds, checking and parsing end in a
      frame/length, `Incomplete`, or an error — never a panic, an abort, or an exhausted model fuel. *)
Theorem C07_total : forall (b : build) (l : bytes),
  good (check (fixed b) l) /\ good (parse (fixed b) l).
Proof. intros b l. split; [exact (check_total b l)|exact (parse_total b l)]. Qed.
Print Assumptions C07_total.

(* 2. The integer reader itself is total at any cursor position of any buffer. *)
Theorem C07_integer_reader_total : forall b tot l,
  get_integer (fixed b) tot l <> Panic /\ get_integer (fixed b) tot l <> Abort /\
  get_integer (fixed b) tot l <> OutOfFuel.
Proof. exact get_integer_total. Qed.
Print Assumptions C07_integer_reader_total.

(* 3. Exactness: an accepted number (or length) is an optional sign, a non-empty run of ASCII digits
      whose signed decimal value is exactly the result, inside i64, then CR and one more byte;
      this holds wherever in the buffer the number sits ([tot], [l] arbitrary). *)
Theorem C07_integer_exact : forall b tot l z r,
  get_integer (fixed b) tot l = Ok (z, r) ->
  exists pos bs x, sign_of l = (pos, bs ++ 13%N :: x :: r) /\ bs <> [] /\ forallb is_digit bs = true /\
                   z = value pos bs 0 /\ in_i64 z = true.
Proof. exact get_integer_exact. Qed.
Print Assumptions C07_integer_exact.

(* 4. ... and conversely a well-formed decimal is accepted exactly when it fits in i64:
      out-of-range numbers are rejected, in-range ones are never rejected. *)
Theorem C07_integer_accepted_iff_in_range : forall b tot l pos bs x r,
  sign_of l = (pos, bs ++ 13%N :: x :: r) -> bs <> [] -> forallb is_digit bs = true ->
  get_integer (fixed b) tot l =
    if in_i64 (value pos bs 0) then Ok (value pos bs 0, r) else Err NotInteger.
Proof. exact get_integer_accepts. Qed.
Print Assumptions C07_integer_accepted_iff_in_range.

(* 5. Nesting: recursion is structural on a budget of [max_depth] = 32 levels; one level more is an
      error for every content and every continuation of the buffer (no stack growth beyond 33 calls). *)
Theorem C07_nesting_bounded : forall b inner rest,
  check (fixed b) (nested (S max_depth) inner ++ rest) = Err BadEncoding /\
  parse (fixed b) (nested (S max_depth) inner ++ rest) = Err BadEncoding.
Proof. intros b inner rest. unfold check, parse. exact (nested_rejected_at_budget b _ max_depth inner rest). Qed.
Print Assumptions C07_nesting_bounded.

(* 6. When the completeness check and the parser both succeed on a buffer they stop at the same byte. *)
Theorem C07_check_parse_agree : forall b l u r1 f r2,
  check (fixed b) l = Ok (u, r1) -> parse (fixed b) l = Ok (f, r2) -> r1 = r2.
Proof. intros b l. unfold check, parse. exact (check_parse_agree b (blen l) (v_depth (fixed b)) l). Qed.
Print Assumptions C07_check_parse_agree.

(* 7. Debug and release builds behave identically (no arithmetic can overflow). *)
Theorem C07_build_irrelevant : forall l,
  check (fixed Debug) l = check (fixed Release) l /\ parse (fixed Debug) l = parse (fixed Release) l.
Proof.
  intros l. unfold check, parse. split;
    [exact (check_build_irrelevant (blen l) _ l)|exact (parse_build_irrelevant (blen l) _ l)].
Qed.
Print Assumptions C07_build_irrelevant.

(* Non-vacuity: the deepest accepted nesting, numbers at the i64 limits, at offset 53. *)
Example C07_depth_32_accepted :
  exists f, parse (fixed Debug) (nested 32 [58; 49; 13; 10]%N) = Ok (f, []).
Proof. eexists. vm_compute. reflexivity. Qed.
Example C07_min_at_offset :
  get_integer (fixed Debug) 75 ([45; 57; 50; 50; 51; 51; 55; 50; 48; 51; 54; 56; 53; 52; 55; 55; 53; 56; 48; 56; 13; 10]%N)
  = Ok (- 9223372036854775808, []).
Proof. vm_compute. reflexivity. Qed.
Example C07_below_min_rejected :
  get_integer (fixed Debug) 75 ([45; 57; 50; 50; 51; 51; 55; 50; 48; 51; 54; 56; 53; 52; 55; 55; 53; 56; 48; 57; 13; 10]%N)
  = Err NotInteger.
Proof. vm_compute. reflexivity. Qed.

(* The pinned (pre-repair) code violated the property: kept as refutations of the old definitions. *)
Theorem C07_pinned_refuted_sign : forall b s, check (pinned b s) [58; 45]%N = Panic.
Proof. intros b s. destruct b, s; reflexivity. Qed.
Print Assumptions C07_pinned_refuted_sign.

Theorem C07_pinned_refuted_offset :
  get_integer (pinned Release 0) 53 (rep 20 57 ++ [13; 10]%N) = Ok (7766279631452241919, []) /\
  get_integer (pinned Debug 0) 53 (rep 20 57 ++ [13; 10]%N) = Panic.
Proof. split; vm_compute; reflexivity. Qed.
Print Assumptions C07_pinned_refuted_offset.

Theorem C07_pinned_refuted_depth : check (pinned Release 100) (nested 101 [58; 49; 13; 10]%N) = Abort.
Proof. vm_compute. reflexivity. Qed.
Print Assumptions C07_pinned_refuted_depth.
