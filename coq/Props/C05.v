(* Props/C05.v *)
From BC Require Import Store.Engine.
