(* Props/C05.v — C05: compaction never changes what any key reads, now or after a restart. *)
From BC Require Import Store.Engine Store.Log Store.Inv Store.Refine Store.Merge Store.Sizes Store.Theorems Store.Pinned.
From BC Require Resp.Frame Resp.Conn Resp.Handler Resp.OverEngine.
Open Scope N_scope.

(* 1. A merge pass — for every configuration [c], hence every threshold setting and every subset
      [select] can produce, and every iteration order that visits each entry of a selected file once —
      succeeds, keeps the invariant and leaves every key reading exactly as before. *)
Theorem C05_merge_preserves : forall c s ord, Inv s -> merge_ready c s ord ->
  exists s' t, merge c s ord = ROk (s', tt, t) /\ Inv s' /\ (forall k, abs s' k = abs s k) /\ s_clock s' = s_clock s.
Proof. exact merge_ok. Qed.
Print Assumptions C05_merge_preserves.

(* 2. ... and also after any number of subsequent close/reopen cycles: a deleted key stays deleted,
      no key reverts to an older value. *)
Theorem C05_merge_then_reopen : forall c s ord n, Inv s -> merge_ready c s ord ->
  exists s' t, merge c s ord = ROk (s', tt, t) /\ forall k, abs (reopens s' n) k = abs s k.
Proof.
  intros c s ord n HI Hr. destruct (merge_ok c s ord HI Hr) as (s' & t & Hm & HI' & Habs & _).
  exists s', t. split; [exact Hm|]. intros k. rewrite (proj2 (reopen_preserves n s' HI') k). apply Habs.
Qed.
Print Assumptions C05_merge_then_reopen.

(* 3. The selection the code computes is closed downwards over the files that hold records: that is
      what makes dropping tombstones safe. *)
Theorem C05_selection_closed : forall c s, Inv s ->
  exists sel0 bound, select c s = ROk sel0 /\
    forall g, mem g sel0 = hasrow (s_stats s) g && match bound with Some b => g <=? b | None => false end.
Proof. exact select_ok. Qed.
Print Assumptions C05_selection_closed.

(* The pinned selection violated the property (D2): file 0 holds k, a, b; file 1 holds tombstones of
   k, x, y, z; thresholds select {1} only; the merge drops the tombstone of k and after a restart
   k reads its old value again. *)
Definition d2_cfg := mkCfg 60 false 1 1 50 0.
Definition d2_ops := [OSet [107] []; OSet [97] []; OSet [98] []; ODel [107]; ODel [120]; ODel [121]; ODel [122]].
Theorem C05_pinned_refuted :
  let s := fst (fst (run d2_cfg init d2_ops)) in
  abs s [107] = None /\
  match merge_pinned d2_cfg s [] with
  | ROk (s', _, _) => abs (reopens s' 1) [107] = Some []
  | _ => False
  end.
Proof. vm_compute. split; reflexivity. Qed.
Print Assumptions C05_pinned_refuted.

(* the same history with the repaired selection *)
Example C05_fixed_example :
  let s := fst (fst (run d2_cfg init d2_ops)) in
  match merge d2_cfg s [[98]; [97]] with
  | ROk (s', _, _) => abs (reopens s' 1) [107] = None /\ abs (reopens s' 1) [97] = Some []
  | _ => False
  end.
Proof. vm_compute. split; reflexivity. Qed.

(* ... seen from a connection (Resp/OverEngine.v): the background task may run a merge pass between any two commands;
   whatever passes run, wherever, with whatever iteration order the index hands out, the connection is answered
   byte for byte as without them, and the engine keeps denoting the same map. *)
Theorem C05_clients_do_not_see_merges : forall c evs s m out, Resp.OverEngine.denotes s m -> Resp.OverEngine.bg_ready c s evs ->
  let '(o1, s', t1) := Resp.OverEngine.handle_bg c s evs out in
  let '(o2, m', t2) := Resp.Handler.handle m (Resp.OverEngine.frames_of evs) out in
  o1 = o2 /\ t1 = t2 /\ Resp.OverEngine.denotes s' m'.
Proof. exact Resp.OverEngine.handle_bg_sim. Qed.
Print Assumptions C05_clients_do_not_see_merges.
