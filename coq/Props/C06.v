(* Props/C06.v — C06: over the network SET/GET/DEL answer exactly as the map model, in order.
   Model: Resp/Handler.v (Command::try_from, the three commands, the per-connection loop) over
   Resp/Conn.v (read_frame over arbitrary socket reads) and a key-value map; C01 proves the storage
   engine to be that map. *)
From BC Require Import Resp.Frame Resp.Conn Resp.Handler Resp.HandlerProofs Resp.Prefix Resp.Stream Resp.Client Resp.ClientProofs Resp.OverEngine.
From BC Require Store.Engine Store.Inv.
Open Scope Z_scope.

(* 1. For any stream of well-formed requests, cut into socket reads in ANY way (whole, one byte at a
      time, anywhere inside a length or a CRLF) and with any number of requests sent before replies
      are read, the bytes the handler writes are exactly the concatenation of the map's replies, one
      per request, in request order (OK for SET; the stored bytes or a null for GET; for DEL the
      number of named keys that were present, each counted as it is deleted in turn), the store ends
      as the map does, and the connection ends cleanly. *)
Theorem C06_replies : forall rs es segs m, Forall (fun r => wf_req r = true) rs ->
  Forall2 (fun r e => enc (frame_of_req r) = Ok e) rs es -> concat segs = concat es ->
  handler_from m segs = (fst (spec_out m rs), snd (spec_out m rs), TClosed).
Proof. exact handler_replies. Qed.
Print Assumptions C06_replies.

(* 2. Every well-formed request has an encoding and is understood as the command it spells. *)
Theorem C06_requests_understood : forall r, wf_req r = true ->
  (exists e, enc (frame_of_req r) = Ok e) /\ cmd_of (frame_of_req r) = inl (cmd_of_req r).
Proof. intros r H. split; [exact (enc_req_ok r H)|exact (cmd_of_frame_of_req r H)]. Qed.
Print Assumptions C06_requests_understood.

(* 3. Values come back byte for byte: a GET after a SET of the same key on one connection replies
      with a bulk string of exactly the bytes that were set, whatever they are. *)
Theorem C06_value_bytes_exact : forall m k v, is_utf8 k = true ->
  snd (apply_cmd (fst (apply_cmd m (CSet k v))) (CGet k)) = Bulk v.
Proof. intros m k v _. cbn [apply_cmd fst snd]. unfold kv_get, aset. cbn [aget]. rewrite beq_refl. reflexivity. Qed.
Print Assumptions C06_value_bytes_exact.

(* 3b. End to end with the crate's own client (src/net/client.rs; model Resp/Client.v): the calls of a
       session (set / get / del with well-formed arguments), each answered by the handler, return call by
       call what the map says — Ok(()) for set, the stored bytes or None for get, the count for del —
       whatever the segmentation of the reply stream and for either build of the frame reader.
       [kv_small]: every stored value has a length that fits the length field (true of the empty map and
       kept by well-formed requests). *)
Theorem C06_client_server : forall b rs segs m, kv_small m -> Forall (fun r => wf_req r = true) rs ->
  concat segs = fst (spec_out m rs) ->
  client_session rs (read_all (fixed b) segs []) = spec_results m rs.
Proof. exact client_server. Qed.
Print Assumptions C06_client_server.

(* 3c. Read-your-writes through both ends and the wire: set then get on one connection returns exactly
       the bytes that were set. *)
Theorem C06_set_then_get : forall b m k v segs, kv_small m -> wf_req (RqSet k v) = true -> wf_req (RqGet k) = true ->
  concat segs = fst (spec_out m [RqSet k v; RqGet k]) ->
  client_session [RqSet k v; RqGet k] (read_all (fixed b) segs []) = [CUnit; CVal (Some v)].
Proof. exact set_then_get. Qed.
Print Assumptions C06_set_then_get.

(* 3d. A reply stream that ends inside a reply: the calls answered so far return the map's answers, the
       next one reports a reset (never a value). *)
Theorem C06_client_truncated : forall b rs r segs m part e, kv_small m -> Forall (fun r => wf_req r = true) rs -> wf_req r = true ->
  enc (snd (apply_cmd (snd (spec_out m rs)) (cmd_of_req r))) = Ok e -> sprefix part e -> part <> [] ->
  concat segs = fst (spec_out m rs) ++ part ->
  client_session (rs ++ [r]) (read_all (fixed b) segs []) = spec_results m rs ++ [CReset].
Proof. exact client_truncated. Qed.
Print Assumptions C06_client_truncated.

(* 3e. ... over the storage ENGINE instead of a map (Resp/OverEngine.v: the same loop issuing one get / set per
       command and one delete per key of a DEL to the engine model of Store/Engine.v, started on an empty
       directory, any configuration): the bytes written are still the map's replies in order, the connection ends
       cleanly, and the engine ends in a state that satisfies its invariant and denotes the map the requests
       produce — what is then on disk is C01's and C03's subject. *)
Theorem C06_over_engine : forall c rs es segs, Forall (fun r => wf_req r = true) rs ->
  Forall2 (fun r e => enc (frame_of_req r) = Ok e) rs es -> concat segs = concat es ->
  let '(out, s', t) := handle_e c Store.Engine.init (read_all (fixed Release) segs []) [] in
  out = fst (spec_out [] rs) /\ t = TClosed /\ denotes s' (snd (spec_out [] rs)).
Proof. exact handler_over_engine. Qed.
Print Assumptions C06_over_engine.

(* 4. DEL counts keys as they are deleted in turn: a key named twice counts once. *)
Example C06_del_counts_in_turn :
  let m := aset (aset [] [107]%N [1]%N) [97]%N [2]%N in
  snd (apply_cmd m (CDel [[107]; [107]; [120]; [97]]%N)) = Integer 2.
Proof. vm_compute. reflexivity. Qed.

Example C06_example :
  let rs := [RqSet [107]%N [13; 10; 0; 255]%N; RqGet [107]%N; RqDel [[107]; [107]]%N; RqGet [107]%N] in
  handler_from [] [[42; 51; 13; 10; 36; 51; 13; 10; 83; 69; 84; 13; 10; 36; 49; 13; 10; 107; 13; 10; 36; 52; 13; 10; 13; 10; 0; 255; 13];
                   [10; 42; 50; 13; 10; 36; 51; 13; 10; 71; 69; 84; 13; 10; 36; 49; 13; 10; 107; 13; 10; 42; 51; 13; 10; 36; 51; 13; 10; 68; 69; 76; 13; 10; 36; 49; 13; 10; 107; 13; 10; 36; 49; 13; 10; 107; 13; 10];
                   [42; 50; 13; 10; 36; 51; 13; 10; 71; 69; 84; 13; 10; 36; 49; 13; 10; 107; 13; 10]]%N
  = (fst (spec_out [] rs), snd (spec_out [] rs), TClosed) /\
  fst (spec_out [] rs) = [43; 79; 75; 13; 10; 36; 52; 13; 10; 13; 10; 0; 255; 13; 10; 58; 49; 13; 10; 36; 45; 49; 13; 10]%N.
Proof. vm_compute. split; reflexivity. Qed.

Example C06_client_example :
  let rs := [RqSet [107]%N [13; 10; 0; 255]%N; RqGet [107]%N; RqDel [[107]; [107]]%N; RqGet [107]%N] in
  kv_small [] /\ Forall (fun r => wf_req r = true) rs /\
  client_session rs (read_all (fixed Release) [[43; 79; 75; 13; 10; 36; 52; 13]; [10; 13; 10; 0; 255; 13; 10; 58; 49; 13; 10; 36; 45; 49; 13; 10]]%N [])
  = [CUnit; CVal (Some [13; 10; 0; 255]%N); CInt 1; CVal None].
Proof. split; [exact kv_small_nil|]. split; [repeat constructor|]. vm_compute. reflexivity. Qed.
