(* Props/C10.v — C10: hostile or malformed input harms only the connection that sent it.
   Proved over the handler model: totality on arbitrary bytes and the exact store effect.  That an
   error or panic in one tokio task leaves the process and the other tasks intact is runtime
   behaviour: observed by `bin/check C10` (process alive, other connections answered correctly while
   and after each hostile stream), not proved. *)
From BC Require Import Resp.Frame Resp.Conn Resp.Handler Resp.HandlerProofs Resp.FrameProofs Resp.OverEngine.
From BC Require Store.Engine.

(* 1. Whatever bytes arrive, in whatever pieces, the connection layer hands the handler only frames
      followed by exactly one clean end, reset or frame error — never a panic, an abort (stack,
      allocation) or a stuck parser. *)
Theorem C10_reads_harmless : forall b segs buf, exists fs r, read_all (fixed b) segs buf = map RFrame fs ++ [r] /\
  (r = RClean \/ r = RReset \/ exists e, r = RErr e).
Proof. exact read_all_ends. Qed.
Print Assumptions C10_reads_harmless.

(* 2. ... and the handler always ends by closing its own connection (peer closed, reset, frame
      error, command error), never in a panic. *)
Theorem C10_handler_total : forall m segs, snd (handler_from m segs) <> TPanic.
Proof. exact handler_total. Qed.
Print Assumptions C10_handler_total.

(* 3. The store after the connection is the store before it with exactly the commands the command
      parser accepted applied in order, up to the first frame it rejects: garbage, unknown or
      lower-case commands, wrong arity, non-UTF-8 keys contribute nothing. *)
Theorem C10_store_effect : forall rs m out, snd (fst (handle m rs out)) = apply_all m (accepted rs).
Proof. exact handler_store_effect. Qed.
Print Assumptions C10_store_effect.

(* 4. What the command parser accepts: only arrays of bulk strings spelling GET/SET/DEL in upper
      case with the right arity and UTF-8 keys. *)
Theorem C10_accepts_only_commands : forall f c, cmd_of f = inl c ->
  exists name args, f = Array (Bulk name :: args) /\ (name = s_GET \/ name = s_SET \/ name = s_DEL).
Proof.
  intros f c H. destruct f as [| | | |items|]; try discriminate. destruct items as [|[| | |name| |] args]; try discriminate.
  exists name, args. split; [reflexivity|]. cbn [cmd_of] in H.
  destruct (beq name s_DEL) eqn:E1; [right; right; apply beq_eq; exact E1|].
  destruct (beq name s_GET) eqn:E2; [left; apply beq_eq; exact E2|].
  destruct (beq name s_SET) eqn:E3; [right; left; apply beq_eq; exact E3|discriminate].
Qed.
Print Assumptions C10_accepts_only_commands.

Example C10_example :
  (* SET hk hv, then garbage: the SET is applied and answered, the garbage closes the connection *)
  let '(out, m, t) := handler_from [] [[42; 51; 13; 10; 36; 51; 13; 10; 83; 69; 84; 13; 10; 36; 50; 13; 10; 104; 107; 13; 10; 36; 50; 13; 10; 104; 118; 13; 10; 0; 1; 13; 10]%N] in
  out = [43; 79; 75; 13; 10]%N /\ kv_get m [104; 107]%N = Some [104; 118]%N /\ t = TFrameErr BadEncoding.
Proof. vm_compute. repeat split. Qed.

(* ... over the storage ENGINE (Resp/OverEngine.v): on arbitrary bytes in arbitrary pieces the loop running over
   the engine model does not panic, and the engine ends in a state that satisfies its invariant and denotes the
   map changed by exactly the accepted commands — a hostile connection reaches the files only through them. *)
Theorem C10_over_engine : forall c segs,
  let '(out, s', t) := handle_e c Store.Engine.init (read_all (fixed Release) segs []) [] in
  t <> TPanic /\ denotes s' (apply_all [] (accepted (read_all (fixed Release) segs []))).
Proof. exact hostile_over_engine. Qed.
Print Assumptions C10_over_engine.
