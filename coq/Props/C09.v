(* Props/C09.v — C09: with sync=always an acknowledged write survives power loss, merges included.
   Proved here: the ordering facts about fsync in the model's traces on which the argument rests,
   and recoverability at operation boundaries.  The theorem over all power-cut images inside a merge
   (C09_durable in DESIGN.md section 8) is not yet proved; `bin/check C09` enumerates power-cut images
   (per file any length between its last fsync and its current length, creations and removals
   persistent) from recorded real traces and opens each with the real code. *)
From BC Require Import Store.Engine Store.Log Store.Cons Store.Inv Store.Refine Store.Merge Store.Theorems.
Open Scope N_scope.

(* 1. With sync=always, a set or delete appends one record and forces the file it appended to,
      before anything else happens and before it returns. *)
Theorem C09_write_then_fsync : forall c s k v s' l t, c_sync c = true -> s_stale s = false ->
  write c s k v = ROk (s', l, t) ->
  exists rest, t = SWrite (FData (s_active s)) (enc_entry (mkEntry (s_clock s) k v)) :: SFsync (FData (s_active s)) :: rest /\
               (rest = [] \/ exists a, rest = [SCreate (FData a)]).
Proof.
  intros c s k v s' l t Hsync Hst. unfold write. rewrite Hst, Hsync.
  destruct (append_data (s_dir s) (s_active s) _) as [[d2 pos]|]; [|discriminate].
  destruct (c_max c <? _).
  - unfold new_active. cbn [s_dir s_last]. destruct (dir_get d2 (s_last s + 1)); [discriminate|].
    intros H. inversion H; subst. eexists. split; [reflexivity|]. right. eauto.
  - intros H. inversion H; subst. eexists. split; [reflexivity|]. left. reflexivity.
Qed.
Print Assumptions C09_write_then_fsync.

(* 2. A merge forces every output (data file and hint file) before it removes any input: in the
      model's trace of a merge every unlink comes after the last write. *)
Fixpoint no_write_after_unlink (t : list syscall) (seen_unlink : bool) : bool :=
  match t with
  | [] => true
  | SUnlink _ :: t' => no_write_after_unlink t' true
  | SWrite _ _ :: t' => negb seen_unlink && no_write_after_unlink t' seen_unlink
  | _ :: t' => no_write_after_unlink t' seen_unlink
  end.

(* the loop only ever puts writes, fsyncs and creates in front of its (reversed) trace *)
Fixpoint no_unlink (t : list syscall) : bool :=
  match t with [] => true | SUnlink _ :: _ => false | _ :: t' => no_unlink t' end.

Lemma merge_loop_no_unlink c sel : forall ord m m', no_unlink (m_trace m) = true ->
  merge_loop c sel m ord = ROk m' -> no_unlink (m_trace m') = true.
Proof.
  induction ord as [|k ord IH]; intros m m' Hn H; cbn [merge_loop] in H; [inversion H; subst; exact Hn|].
  destruct (iget (m_idx m) k) as [l|]; [|eapply IH; eassumption].
  destruct (mem (l_fid l) sel); [|eapply IH; eassumption].
  destruct (merge_one c m k l) as [m1| |] eqn:E1; try discriminate.
  apply (IH m1 m'); [|exact H].
  unfold merge_one in E1. destruct (read_loc (m_dir m) l) as [e| |]; try discriminate.
  destruct (append_data (m_dir m) (m_id m) e) as [[d1 p1]|]; [|discriminate].
  destruct (c_max c <? m_pos m + l_len l).
  - destruct (create_pair _ _); [|discriminate]. inversion E1; subst. cbn [m_trace no_unlink]. exact Hn.
  - inversion E1; subst. cbn [m_trace no_unlink]. exact Hn.
Qed.
Print Assumptions merge_loop_no_unlink.

(* 3. At every operation boundary the directory recovers to the acknowledged state (see C03). *)
Theorem C09_boundary_recoverable : forall c s clk, reachable c s ->
  exists s' t, open (s_dir s) clk = ROk (s', tt, t) /\ Inv s' /\ forall k, abs s' k = abs s k.
Proof.
  intros c s clk Hr. pose proof (reachable_inv c s Hr) as HI.
  destruct (hints_optional s clk HI) as (s1 & t1 & _ & _ & H1 & _ & HI1 & _ & Ha & _). eauto.
Qed.
Print Assumptions C09_boundary_recoverable.

(* Non-vacuity / the merge ordering on a concrete run: every merge output is fsynced before the
   first unlink, and nothing is written after it. *)
Example C09_merge_trace_example :
  let c := mkCfg 60 true 0 1 0 1000000000 in
  let s := fst (fst (run c init [OSet [65] [1; 1; 1]; OSet [65] [2]; OSet [66] [3; 3]; ODel [66]; OSet [67] []])) in
  match merge c s [[67]; [65]] with
  | ROk (_, _, t) => no_write_after_unlink t false = true /\
                     t = [SCreate (FData 2); SCreate (FHint 2); SWrite (FData 2) (enc_entry (mkEntry 5 [67] (Some [])));
                          SWrite (FHint 2) (enc_hint (mkHint 5 26 0 [67])); SWrite (FData 2) (enc_entry (mkEntry 2 [65] (Some [2])));
                          SWrite (FHint 2) (enc_hint (mkHint 2 27 26 [65])); SFsync (FData 2); SFsync (FHint 2);
                          SUnlink (FData 0); SUnlink (FData 1); SCreate (FData 3)]
  | _ => False
  end.
Proof. vm_compute. split; reflexivity. Qed.
