(* Props/C09.v *)
From BC Require Import Store.Engine.
