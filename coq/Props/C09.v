(* Props/C09.v — C09: with sync=always an acknowledged write survives power loss, merges included.
   Proved for the model, in the failure model of the property (per file independently any suffix
   written after that file's last completed fsync may be missing; creations and removals are
   persistent; the failure may strike at every boundary between calls): every power image of the
   trace of every ready script under sync=always — merge passes included — recovers to the map after
   the first n operations (theorems 4 and 5).  `bin/check C09` ties this to the code: it enumerates
   power-cut images of recorded REAL traces and opens each with the real code. *)
From BC Require Import Store.Engine Store.Log Store.Cons Store.Inv Store.Refine Store.Merge Store.Theorems
  Store.Crash Store.CrashScript Store.CrashMerge Store.Power.
From BC Require Resp.Frame Resp.Conn Resp.OverEngine Resp.ServerStore.
Open Scope N_scope.

(* 1. With sync=always, a set or delete appends one record and forces the file it appended to,
      before anything else happens and before it returns. *)
Theorem C09_write_then_fsync : forall c s k v s' l t, c_sync c = true -> s_stale s = false ->
  write c s k v = ROk (s', l, t) ->
  exists rest, t = SWrite (FData (s_active s)) (enc_entry (mkEntry (s_clock s) k v)) :: SFsync (FData (s_active s)) :: rest /\
               (rest = [] \/ exists a, rest = [SCreate (FData a)]).
Proof.
  intros c s k v s' l t Hsync Hst. unfold write. rewrite Hst, Hsync.
  destruct (append_data (s_dir s) (s_active s) _) as [[d2 pos]|]; [|discriminate].
  destruct (c_max c <? _).
  - unfold new_active. cbn [s_dir s_last]. destruct (dir_get d2 (s_last s + 1)); [discriminate|].
    intros H. inversion H; subst. eexists. split; [reflexivity|]. right. eauto.
  - intros H. inversion H; subst. eexists. split; [reflexivity|]. left. reflexivity.
Qed.
Print Assumptions C09_write_then_fsync.

(* 2. A merge forces every output (data file and hint file) before it removes any input: in the
      model's trace of a merge every unlink comes after the last write. *)
Fixpoint no_write_after_unlink (t : list syscall) (seen_unlink : bool) : bool :=
  match t with
  | [] => true
  | SUnlink _ :: t' => no_write_after_unlink t' true
  | SWrite _ _ :: t' => negb seen_unlink && no_write_after_unlink t' seen_unlink
  | _ :: t' => no_write_after_unlink t' seen_unlink
  end.

(* the loop only ever puts writes, fsyncs and creates in front of its (reversed) trace *)
Fixpoint no_unlink (t : list syscall) : bool :=
  match t with [] => true | SUnlink _ :: _ => false | _ :: t' => no_unlink t' end.

Lemma merge_loop_no_unlink c sel : forall ord m m', no_unlink (m_trace m) = true ->
  merge_loop c sel m ord = ROk m' -> no_unlink (m_trace m') = true.
Proof.
  induction ord as [|k ord IH]; intros m m' Hn H; cbn [merge_loop] in H; [inversion H; subst; exact Hn|].
  destruct (iget (m_idx m) k) as [l|]; [|eapply IH; eassumption].
  destruct (mem (l_fid l) sel); [|eapply IH; eassumption].
  destruct (merge_one c m k l) as [m1| |] eqn:E1; try discriminate.
  apply (IH m1 m'); [|exact H].
  unfold merge_one in E1. destruct (read_loc (m_dir m) l) as [e| |]; try discriminate.
  destruct (append_data (m_dir m) (m_id m) e) as [[d1 p1]|]; [|discriminate].
  destruct (c_max c <? m_pos m + l_len l).
  - destruct (create_pair _ _); [|discriminate]. inversion E1; subst. cbn [m_trace no_unlink]. exact Hn.
  - inversion E1; subst. cbn [m_trace no_unlink]. exact Hn.
Qed.
Print Assumptions merge_loop_no_unlink.

(* 3. At every operation boundary the directory recovers to the acknowledged state (see C03). *)
Theorem C09_boundary_recoverable : forall c s clk, reachable c s ->
  exists s' t, open (s_dir s) clk = ROk (s', tt, t) /\ Inv s' /\ forall k, abs s' k = abs s k.
Proof.
  intros c s clk Hr. pose proof (reachable_inv c s Hr) as HI.
  destruct (hints_optional s clk HI) as (s1 & t1 & _ & _ & H1 & _ & HI1 & _ & Ha & _). eauto.
Qed.
Print Assumptions C09_boundary_recoverable.

(* 4. THE property.  [pstep] runs the calls on a file system that also tracks the durable length of
      every file; [pimage st img]: [img] keeps of every file a prefix at least that long;
      [power_image_of st0 t img]: [img] is such an image of the state after some prefix of [t].
      [img_ok_p img m]: what the scanner reads from [img] — hint files up to the first entry that points
      past the end of its data file — is a directory that opens to the map [m].
      Under sync=always every power image of every ready script recovers to the state after the first
      n operations ... *)
Theorem C09_durable : forall c, c_sync c = true -> forall ops s st0,
  Inv s -> run_ready c s ops -> synced st0 -> rep (fst st0) (s_dir s) -> trace_wf (snd (run c s ops)) ->
  (exists st1, prun st0 (snd (run c s ops)) = Some st1 /\ synced st1 /\ rep (fst st1) (s_dir (fst (fst (run c s ops))))) /\
  forall img, power_image_of st0 (snd (run c s ops)) img ->
    exists n, (n <= length ops)%nat /\ img_ok_p img (abs (state_after c s ops n)).
Proof. exact power_safe_script. Qed.
Print Assumptions C09_durable.

(* 4s. ... for the SERVER (Resp/ServerStore.v): whatever bytes a connection sends, in whatever pieces, the engine
       operations its accepted commands consist of are such a script; with sync=always every power image of their
       system calls opens to the map after a prefix of them, and at the end everything written is durable. *)
Theorem C09_server_durable : forall c segs st0, c_sync c = true ->
  let ops := Resp.OverEngine.script_of (Resp.Conn.read_all (Resp.Frame.fixed Resp.Frame.Release) segs []) in
  synced st0 -> rep (fst st0) (s_dir init) -> trace_wf (snd (run c init ops)) ->
  (exists st1, prun st0 (snd (run c init ops)) = Some st1 /\ synced st1 /\ rep (fst st1) (s_dir (fst (fst (run c init ops))))) /\
  forall img, power_image_of st0 (snd (run c init ops)) img ->
    exists n, (n <= length ops)%nat /\ img_ok_p img (abs (state_after c init ops n)).
Proof. exact Resp.ServerStore.server_power_safe. Qed.
Print Assumptions C09_server_durable.

(* 5. ... sharply: a power failure during operation [o], after [ops1] returned, keeps all of [ops1]
      (and [o] entirely or not at all).  For a merge pass [o] the two maps are equal: a merge never
      removes the only durable copy of a value. *)
Theorem C09_acknowledged_survives : forall c ops1 o st0, c_sync c = true ->
  run_ready c init (ops1 ++ [o]) -> synced st0 -> rep (fst st0) (s_dir init) -> trace_wf (snd (run c init (ops1 ++ [o]))) ->
  let s1 := fst (fst (run c init ops1)) in
  exists st1, prun st0 (snd (run c init ops1)) = Some st1 /\
    forall img, power_image_of st1 (snd (step c s1 o)) img ->
      img_ok_p img (abs s1) \/ img_ok_p img (abs (fst (fst (step c s1 o)))).
Proof. exact power_during_op. Qed.
Print Assumptions C09_acknowledged_survives.

Theorem C09_merge_pass_power_safe : forall c s ord, Inv s -> merge_ready c s ord -> step_power_safe c s (OMerge ord).
Proof. exact merge_power_safe. Qed.
Print Assumptions C09_merge_pass_power_safe.

(* the model's hint loader does what [img_ok_p] assumes: hints after the first one that points past
   the end of the data file are not loaded (the D9 repair) *)
Theorem C09_hint_loader_stops : forall fid L L' hs extra ix,
  Forall (fun h => h_pos h + h_len h <= L) hs -> Forall (fun h => h_pos h + h_len h <= L') hs ->
  match extra with [] => True | h :: _ => L < h_pos h + h_len h end ->
  load_hints fid L (hs ++ extra) ix = load_hints fid L' hs ix.
Proof. exact load_hints_extra. Qed.
Print Assumptions C09_hint_loader_stops.

(* Non-vacuity of 4 and 5: a script under sync=always with a merge pass is ready, its trace is
   well-formed and runs on the power-tracking file system from a durable state to a durable state; and
   a power image taken in the middle of the merge's copy phase — after the first copy reached the
   merge data file and before its hint was written, with only 5 of the 27 bytes of that copy durable —
   exists. *)
Definition ex_c := mkCfg 60 true 0 1 0 1000000000.
Definition ex_ops := [OSet [107] [1; 2]; OSet [108] [3]; ODel [107]; OSet [109] [4; 4; 4; 4; 4; 4; 4; 4; 4; 4; 4; 4; 4; 4; 4; 4; 4; 4; 4; 4; 4; 4; 4; 4; 4; 4; 4; 4; 4; 4]; OMerge [[108]; [109]]].
Definition ex_st0 : pst := ((fun f => match f with FData 0 => Some [] | _ => None end), fun _ => 0%nat).

Example C09_power_example :
  c_sync ex_c = true /\ synced ex_st0 /\ rep (fst ex_st0) (s_dir init) /\
  (exists st1, prun ex_st0 (snd (run ex_c init ex_ops)) = Some st1) /\
  exists img, power_image_of ex_st0 (snd (run ex_c init ex_ops)) img /\
              img (FData 2) = Some (firstn 5 (enc_entry (mkEntry 2 [108] (Some [3])))) /\ img (FHint 2) = Some [] /\ img (FData 0) <> None.
Proof.
  split; [reflexivity|]. split.
  { intros f b H. cbn [fst snd ex_st0] in *. destruct f as [[|p]|i]; try discriminate. inversion H. reflexivity. }
  split; [intros id; destruct id as [|p]; vm_compute; auto|]. split; [eexists; vm_compute; reflexivity|].
  assert (Hb0 : bounded ex_st0).
  { intros f b H. cbn [fst snd ex_st0] in *. destruct f as [[|p]|i]; try discriminate. inversion H. cbn. lia. }
  destruct (prun ex_st0 (firstn 12 (snd (run ex_c init ex_ops)))) as [st|] eqn:E; [|vm_compute in E; discriminate].
  pose proof (prun_bounded _ _ _ Hb0 E) as Hb.
  eexists. split.
  - apply (pimg _ _ _ (firstn 12 (snd (run ex_c init ex_ops))) (skipn 12 (snd (run ex_c init ex_ops))) st); [symmetry; apply firstn_skipn|exact E|].
    apply (cut_one_is_image st (FData 2) 5 Hb). vm_compute in E. inversion E; subst st. cbn. lia.
  - vm_compute in E. inversion E; subst st. cbn. split; [reflexivity|]. split; [reflexivity|discriminate].
Qed.

(* Non-vacuity / the merge ordering on a concrete run: every merge output is fsynced before the
   first unlink, and nothing is written after it. *)
Example C09_merge_trace_example :
  let c := mkCfg 60 true 0 1 0 1000000000 in
  let s := fst (fst (run c init [OSet [65] [1; 1; 1]; OSet [65] [2]; OSet [66] [3; 3]; ODel [66]; OSet [67] []])) in
  match merge c s [[67]; [65]] with
  | ROk (_, _, t) => no_write_after_unlink t false = true /\
                     t = [SCreate (FData 2); SCreate (FHint 2); SWrite (FData 2) (enc_entry (mkEntry 5 [67] (Some [])));
                          SWrite (FHint 2) (enc_hint (mkHint 5 26 0 [67])); SWrite (FData 2) (enc_entry (mkEntry 2 [65] (Some [2])));
                          SWrite (FHint 2) (enc_hint (mkHint 2 27 26 [65])); SFsync (FData 2); SFsync (FHint 2);
                          SUnlink (FData 0); SUnlink (FData 1); SCreate (FData 3)]
  | _ => False
  end.
Proof. vm_compute. split; reflexivity. Qed.
