(* Props/C02.v — C02: closing and reopening a store preserves exactly its contents, deletions included. *)
From BC Require Import Store.Engine Store.Log Store.Inv Store.Refine Store.Merge Store.Theorems Store.Pinned.
From BC Require Resp.Frame Resp.Conn Resp.Handler Resp.HandlerProofs Resp.OverEngine.
Open Scope N_scope.

(* 1. After any history (here: any state reachable by a ready script, so also histories with merges),
      any number of close/reopen cycles leaves every key reading exactly as before: surviving keys
      keep their latest value, deleted keys stay deleted. *)
Theorem C02_reopen_preserves : forall n s, Inv s ->
  Inv (reopens s n) /\ forall k, abs (reopens s n) k = abs s k.
Proof. exact reopen_preserves. Qed.
Print Assumptions C02_reopen_preserves.

(* 2. Recovery is exact: the rebuilt index points every key at the same file, offset, length and
      timestamp as before the close, the rebuilt counters are the same, and the files are untouched
      (the log of the directory is unchanged; the only system call is the creation of a new active file). *)
Theorem C02_recovery_exact : forall s, Inv s -> exists s' t, reopen s = ROk (s', tt, t) /\ Inv s' /\
  (forall k, iget (s_idx s') k = iget (s_idx s) k) /\
  (forall g, sget0 (s_stats s') g = sget0 (s_stats s) g) /\ slog s' = slog s.
Proof. exact reopen_index. Qed.
Print Assumptions C02_recovery_exact.

Theorem C02_reopen_only_creates : forall s s' t, reopen s = ROk (s', tt, t) -> exists a, t = [SCreate (FData a)].
Proof.
  intros s s' t H. unfold reopen, open in H. destruct (rebuild_files (s_dir s) ([], [])) as [[i x]|]; [|discriminate].
  inversion H; subst. eauto.
Qed.
Print Assumptions C02_reopen_only_creates.

(* 3. For set/delete histories from the empty store: what is read after n reopen cycles is the map's
      final state. *)
Theorem C02_history_then_reopen : forall c ops n, run_ready c init ops ->
  forall k, abs (reopens (fst (fst (run c init ops))) n) k = spec_final (fun _ => None) ops k.
Proof.
  intros c ops n Hr k. pose proof (run_refines c ops init (proj1 init_inv) Hr) as H.
  destruct (run c init ops) as [[s' rs] ts]. cbn [fst]. destruct H as (HI & _ & Hfin).
  rewrite (proj2 (reopen_preserves n s' HI) k), Hfin.
  apply (proj2 (spec_run_ext ops (abs init) (fun _ => None) ltac:(intros k0; unfold abs; rewrite (proj2 init_inv); reflexivity))).
Qed.
Print Assumptions C02_history_then_reopen.

(* The pinned recovery violated the property: set k v; del k; reopen; get k returned v. *)
Theorem C02_pinned_refuted :
  let s := fst (fst (run (mkCfg 1000 false 1 1 1000 0) init [OSet [107] [118]; ODel [107]])) in
  abs s [107] = None /\ get_after_pinned_reopen s [107] = Some (Some [118]).
Proof. vm_compute. split; reflexivity. Qed.
Print Assumptions C02_pinned_refuted.

Example C02_example : let s := fst (fst (run (mkCfg 30 false 1 1 1000 0) init [OSet [107] [118]; ODel [107]; OSet [97] [1]; OSet [97] [2]])) in
  abs (reopens s 3) [107] = None /\ abs (reopens s 3) [97] = Some [2].
Proof. vm_compute. split; reflexivity. Qed.

(* ... for the SERVER (Resp/OverEngine.v): a first connection sends anything at all; the server is restarted cleanly; a
   second connection with well-formed requests is answered, byte for byte, from the map the first one left — deletions
   included — and the engine ends denoting the map after both. *)
Theorem C02_server_restart : forall c segs1 rs2 es2 segs2, Forall (fun r => Resp.Handler.wf_req r = true) rs2 ->
  Forall2 (fun r e => Resp.Frame.enc (Resp.Handler.frame_of_req r) = Resp.Frame.Ok e) rs2 es2 -> concat segs2 = concat es2 ->
  let '(_, s1, _) := Resp.OverEngine.handle_e c init (Resp.Conn.read_all (Resp.Frame.fixed Resp.Frame.Release) segs1 []) [] in
  let m1 := Resp.HandlerProofs.apply_all [] (Resp.HandlerProofs.accepted (Resp.Conn.read_all (Resp.Frame.fixed Resp.Frame.Release) segs1 [])) in
  exists s1' t, reopen s1 = ROk (s1', tt, t) /\
    let '(out2, s2, t2) := Resp.OverEngine.handle_e c s1' (Resp.Conn.read_all (Resp.Frame.fixed Resp.Frame.Release) segs2 []) [] in
    out2 = fst (Resp.HandlerProofs.spec_out m1 rs2) /\ t2 = Resp.Handler.TClosed /\ Resp.OverEngine.denotes s2 (snd (Resp.HandlerProofs.spec_out m1 rs2)).
Proof. exact Resp.OverEngine.two_lives. Qed.
Print Assumptions C02_server_restart.
