(* Props/C02.v *)
From BC Require Import Store.Engine.
