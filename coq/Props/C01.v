(* Props/C01.v — the store behaves as a key-value map for every operation sequence. *)
From BC Require Import Store.Engine.
