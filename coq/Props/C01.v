(* Props/C01.v — C01: the store behaves as a key-value map for every operation sequence.
   Model: Store/Engine.v ([run], [step], [init]); specification: [spec_run] over [bytes -> option bytes].
   [run_ready] only asks that every merge is handed an iteration order that visits each index entry
   of a selected file exactly once (what iterating the index does); configurations (max file size
   from 0 up, thresholds, sync) are universally quantified in [c]. *)
From BC Require Import Store.Codec Store.CodecProofs Store.Engine Store.Log Store.Inv Store.Refine Store.Merge Store.Theorems
  Store.Crash Store.CrashScript Store.CrashMerge.
Open Scope N_scope.

(* 1. Every result of every script equals the map's result: a get returns exactly the latest set of
      that key (or nothing), a delete reports presence, merges and reopen cycles at arbitrary
      positions change nothing; and the final state still satisfies the invariant. *)
Theorem C01_refines_map : forall c ops,
  run_ready c init ops ->
  let '(s', rs, _) := run c init ops in
  Inv s' /\ rs = spec_run (fun _ => None) ops /\ forall k, abs s' k = spec_final (fun _ => None) ops k.
Proof.
  intros c ops Hr. pose proof (run_refines c ops init (proj1 init_inv) Hr) as H.
  destruct (run c init ops) as [[s' rs] ts]. destruct H as (HI & Hrs & Hfin).
  assert (H0 : forall k, abs init k = (fun _ : bytes => @None bytes) k).
  { intros k. unfold abs. rewrite (proj2 init_inv). reflexivity. }
  destruct (spec_run_ext ops _ _ H0) as [E1 E2]. split; [exact HI|]. split; [rewrite Hrs; exact E1|].
  intros k. rewrite Hfin. apply E2.
Qed.
Print Assumptions C01_refines_map.

(* 2. ... from any state satisfying the invariant, not only the empty store. *)
Theorem C01_refines_map_from : forall c ops s, Inv s -> run_ready c s ops ->
  let '(s', rs, _) := run c s ops in
  Inv s' /\ rs = spec_run (abs s) ops /\ forall k, abs s' k = spec_final (abs s) ops k.
Proof. exact run_refines. Qed.
Print Assumptions C01_refines_map_from.

(* 3. No operation of such a script fails or panics (in particular the counter arithmetic never
      underflows and every index entry can be read). *)
Theorem C01_no_failure : forall c s o, Inv s -> op_ready c s o -> normal (snd (fst (step c s o))) = true.
Proof. exact no_underflow. Qed.
Print Assumptions C01_no_failure.

(* 4. A get reads what the log says is the latest value. *)
Theorem C01_get : forall s k, Inv s -> get s k = ROk (abs s k).
Proof. exact get_abs. Qed.
Print Assumptions C01_get.

(* 5. The record-level files of the model are a faithful picture of the bytes: executing the system
      calls of any ready script on a byte-level file system leaves, in every data file, exactly the
      encodings of the model's records (and in every hint file the encodings of its hints); and those
      bytes scan back to the records at the positions the index uses (Store/CodecProofs.v). *)
Theorem C01_bytes_on_disk : forall c ops s0, run_ready c init ops -> rep s0 (s_dir init) -> trace_wf (snd (run c init ops)) ->
  exists s1, fs_run s0 (snd (run c init ops)) = Some s1 /\ rep s1 (s_dir (fst (fst (run c init ops)))).
Proof. exact bytes_on_disk. Qed.
Print Assumptions C01_bytes_on_disk.

Theorem C01_bytes_scan_to_records : forall es, Forall wf_entry es -> scan dec_entry (file_bytes es) = Some (layout 0 es).
Proof. exact scan_file. Qed.
Print Assumptions C01_bytes_scan_to_records.

(* 5b. ... and the bytes determine the records: equal bytes, equal records; a file whose last record is torn
       determines its complete records and the torn part (a directory is read in one way only). *)
Theorem C01_bytes_determine_records : forall es es', Forall wf_entry es -> Forall wf_entry es' -> file_bytes es = file_bytes es' -> es = es'.
Proof. exact file_bytes_inj. Qed.
Print Assumptions C01_bytes_determine_records.

Theorem C01_torn_file_determines_records : forall es es' e e' p q p' q',
  Forall wf_entry es -> Forall wf_entry es' -> wf_entry e -> wf_entry e' -> q <> [] -> q' <> [] ->
  enc_entry e = p ++ q -> enc_entry e' = p' ++ q' ->
  file_bytes es ++ p = file_bytes es' ++ p' -> es = es' /\ p = p'.
Proof. exact torn_file_determines_records. Qed.
Print Assumptions C01_torn_file_determines_records.

(* Non-vacuity: a 12-operation script over three files with a rollover, a delete, a merge of every
   file and a reopen is ready, and runs to the map's answers. *)
Definition ex_cfg := mkCfg 60 false 0 1 0 1000000000.
Definition ex_ops : list op :=
  [OSet [107] [118; 49]; OSet [97] [1; 2; 3]; OSet [107] [118; 50]; ODel [97]; OGet [97]; OGet [107];
   OSet [98] []; OMerge [[98]; [107]]; OGet [107]; OReopen; OGet [98]; OGet [97]].
Example C01_example_ready : run_ready ex_cfg init ex_ops.
Proof.
  cbn [run_ready ex_ops]. repeat split.
  intros sel0 H. vm_compute in H. inversion H; subst. vm_compute. reflexivity.
Qed.
Example C01_example_results :
  snd (fst (run ex_cfg init ex_ops)) =
  [VUnit; VUnit; VUnit; VBool true; VVal None; VVal (Some [118; 50]); VUnit; VUnit; VVal (Some [118; 50]); VUnit;
   VVal (Some []); VVal None].
Proof. vm_compute. reflexivity. Qed.
