(* Props/C13.v — C13: compaction actually reclaims space and never grows the store. *)
From BC Require Import Store.Codec Store.CodecProofs Store.Engine Store.Log Store.Inv Store.Refine Store.Merge Store.MergeLemmas Store.Sizes Store.Theorems Store.SizeThms
  Store.Crash Store.CrashScript Store.CrashMerge.
Open Scope N_scope.

(* [dir_size d] is the sum of the sizes of the data files of [d] ([dir_size_files]); [live_bytes L i]
   is the total size of the records of the log that the index still denotes — each live key's
   latest value record, 25 + |key| + |value| bytes, once. *)
Theorem C13_dir_size_is_file_sizes : forall d, dir_size d = files_size d.
Proof. exact dir_size_files. Qed.
Print Assumptions C13_dir_size_is_file_sizes.

(* 1. A merge pass never increases the total size of the data files, whatever the thresholds select. *)
Theorem C13_no_growth : forall c s ord, Inv s -> merge_ready c s ord ->
  exists s' t, merge c s ord = ROk (s', tt, t) /\ dir_size (s_dir s') <= dir_size (s_dir s).
Proof. exact merge_no_growth. Qed.
Print Assumptions C13_no_growth.

(* 2. The exact size after any merge: what the unselected files hold, plus one copy of every record
      that was live in a selected file. *)
Theorem C13_size_after_merge : forall c s ord, Inv s -> merge_ready c s ord ->
  exists s' t sel0, merge c s ord = ROk (s', tt, t) /\ select c s = ROk sel0 /\
    dir_size (s_dir s') = lsize (filter (keep (fun g => mem g sel0)) (slog s)) + bliveS (fun g => mem g sel0) (slog s) (s_idx s).
Proof.
  intros c s ord HI Hr. destruct (merge_full c s ord HI Hr) as (s' & t & sel0 & Hm & Hsel & _ & _ & _ & Hsz & _).
  exists s', t, sel0. auto.
Qed.
Print Assumptions C13_size_after_merge.

(* 3. When every file that holds a record is selected, the store afterwards is exactly as large as the
      live records (each live key once, no deleted or overwritten data kept: no file has a dead
      record or a dead byte) ... *)
Theorem C13_full_merge_exact : forall c s ord, Inv s -> merge_ready c s ord ->
  (forall sel0, select c s = ROk sel0 -> all_selected sel0 (slog s)) ->
  exists s' t, merge c s ord = ROk (s', tt, t) /\ Inv s' /\
    dir_size (s_dir s') = live_bytes (slog s) (s_idx s) /\
    (forall g, ndead (slog s') (s_idx s') g = 0 /\ bdead (slog s') (s_idx s') g = 0) /\
    live_bytes (slog s') (s_idx s') = dir_size (s_dir s').
Proof. exact merge_all_exact. Qed.
Print Assumptions C13_full_merge_exact.

(* 4. ... and repeating such a merge changes nothing further. *)
Theorem C13_idempotent : forall c s ord ord', Inv s -> merge_ready c s ord ->
  (forall sel0, select c s = ROk sel0 -> all_selected sel0 (slog s)) ->
  exists s' t, merge c s ord = ROk (s', tt, t) /\
    (merge_ready c s' ord' -> (forall sel0, select c s' = ROk sel0 -> all_selected sel0 (slog s')) ->
     exists s'' t', merge c s' ord' = ROk (s'', tt, t') /\ dir_size (s_dir s'') = dir_size (s_dir s')).
Proof.
  intros c s ord ord' HI Hr Hall. destruct (merge_all_exact c s ord HI Hr Hall) as (s' & t & Hm & HI' & _ & _ & Hlb).
  exists s', t. split; [exact Hm|]. intros Hr' Hall'.
  destruct (merge_all_exact c s' ord' HI' Hr' Hall') as (s'' & t' & Hm' & _ & Hsz & _).
  exists s'', t'. split; [exact Hm'|]. rewrite Hsz. exact Hlb.
Qed.
Print Assumptions C13_idempotent.

(* the sizes these theorems speak of are the sizes of the files in bytes: a data file that holds the
   encodings of the model's records is [data_size] bytes long *)
Theorem C13_sizes_are_bytes : forall s d id f, rep s d -> dir_get d id = Some f ->
  exists b, s (FData id) = Some b /\ blen b = data_size (d_data f).
Proof. exact rep_sizes. Qed.
Print Assumptions C13_sizes_are_bytes.

Example C13_example :
  let c := mkCfg 60 false 0 1 0 1000000000 in
  let s := fst (fst (run c init [OSet [65] [1; 1; 1]; OSet [65] [2]; OSet [66] [3; 3]; ODel [66]; OSet [67] []])) in
  dir_size (s_dir s) = 128 /\
  match merge c s [[67]; [65]] with
  | ROk (s', _, _) => dir_size (s_dir s') = 53 /\ live_bytes (slog s) (s_idx s) = 53
  | _ => False
  end.
Proof. vm_compute. repeat split. Qed.
