(* Props/C13.v *)
From BC Require Import Store.Engine.
