(* Props/C12.v *)
From BC Require Import Store.Engine.
