(* Props/C12.v — C12: hint files are only an accelerator: recovery with or without them agrees. *)
From BC Require Import Store.Engine Store.Log Store.Cons Store.Inv Store.Refine Store.Merge Store.Theorems.
Open Scope N_scope.

(* 1. From the directory of any reachable state (any history with merges, also merges that roll over
      into several outputs, any thresholds), opening with every hint file deleted succeeds and
      recovers the same index entry (file, offset, length, timestamp) for every key, hence the same
      value for every key, as opening with the hint files. *)
Theorem C12_hints_optional : forall s clk, Inv s ->
  exists s1 t1 s2 t2, open (s_dir s) clk = ROk (s1, tt, t1) /\ open (drop_hints (s_dir s)) clk = ROk (s2, tt, t2) /\
    Inv s1 /\ Inv s2 /\ (forall k, abs s1 k = abs s k) /\ (forall k, abs s2 k = abs s k) /\
    (forall k, iget (s_idx s2) k = iget (s_idx s1) k).
Proof. exact hints_optional. Qed.
Print Assumptions C12_hints_optional.

(* 2. The reason: every hint file lists exactly the records of its data file (timestamp, length,
      offset before the increment, key), and that data file holds only values; this is part of the
      invariant every operation preserves. *)
Theorem C12_hints_list_data : forall s id f, Inv s -> In (id, f) (s_dir s) ->
  match d_hint f with Some hs => hs = hints_of (d_data f) 0 /\ all_values (d_data f) | None => True end.
Proof. intros s id f (_ & _ & Hh & _) Hin. exact (Hh id f Hin). Qed.
Print Assumptions C12_hints_list_data.

Theorem C12_scan_equals_hints : forall fid es pos datalen ix,
  all_values es -> pos + data_size es <= datalen ->
  load_hints fid datalen (hints_of es pos) ix = load_data fid es pos ix.
Proof. exact load_hints_is_load_data. Qed.
Print Assumptions C12_scan_equals_hints.

(* Non-vacuity: a history whose merge rolls over into two outputs. *)
Example C12_example :
  let c := mkCfg 60 false 0 1 0 1000000000 in
  let s := fst (fst (run c init [OSet [65] [1; 1; 1; 1; 1; 1; 1; 1; 1; 1]; OSet [66] [2; 2; 2; 2; 2; 2; 2; 2; 2; 2]; OSet [67] [3]; OSet [68] [4; 4; 4; 4; 4; 4; 4; 4; 4; 4]; ODel [66]; OMerge [[65]; [68]; [67]]])) in
  length (filter (fun '(_, f) => match d_hint f with Some (_ :: _) => true | _ => false end) (s_dir s)) = 2%nat /\
  match open (drop_hints (s_dir s)) 1%Z with ROk (s2, _, _) => abs s2 [65] = abs s [65] /\ abs s2 [66] = None | _ => False end.
Proof. vm_compute. repeat split. Qed.
