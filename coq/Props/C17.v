(* Props/C17.v — C17: a closed store rejects all use and stops its background worker.
   Model: Sys/Close.v.  Thread and descriptor lifetime are runtime behaviour: observed by
   `bin/check C17` (/proc/self/task, /proc/self/fd), not proved: partial.  An operation already past
   its `closed` check when the store is dropped is concurrent with the drop and outside the statement. *)
From Coq Require Import List.
Import ListNotations.
From BC Require Import Store.Engine Store.Inv Store.Refine Store.Theorems Sys.Close.

(* 1. After the owning object is dropped, every operation through any remaining handle — get, set,
      delete, merge, sync — fails with `closed`, changes nothing and issues no system call. *)
Theorem C17_closed_rejects : forall c h o, h_closed (drop_store h) = true /\
  hstep c (drop_store h) o = (drop_store h, HClosed, []).
Proof. intros c h o. split; [reflexivity|]. apply closed_rejects. reflexivity. Qed.
Print Assumptions C17_closed_rejects.

Theorem C17_closed_forever : forall c os h, hrun c (drop_store h) os = (drop_store h, map (fun _ => HClosed) os, []).
Proof. intros c os h. apply closed_forever. reflexivity. Qed.
Print Assumptions C17_closed_forever.

(* 2. The background worker exits promptly: once the sender is dropped it reaches its exit in at most
      two of its own steps, none of which is a timer tick, however far away the next timer is. *)
Theorem C17_worker_exits : forall s, sender_alive s = false -> w s <> WExited ->
  exists es, (length es <= 2)%nat /\ Forall (fun e => e <> Tick) es /\ exists s', wrun s es = Some s' /\ w s' = WExited.
Proof. exact worker_exits_promptly. Qed.
Print Assumptions C17_worker_exits.

(* 3. The directory can be opened again at once and reads the same (no lock, nothing left half done):
      the directory of any reachable state opens, and opens to the same contents. *)
Theorem C17_reopen_at_once : forall c s, reachable c s ->
  exists s' t, reopen s = ROk (s', tt, t) /\ Inv s' /\ forall k, abs s' k = abs s k.
Proof.
  intros c s Hr. destruct (reopen_index s (reachable_inv c s Hr)) as (s' & t & H1 & HI & _ & _ & Hlog).
  exists s', t. split; [exact H1|]. split; [exact HI|]. intros k. unfold abs. rewrite Hlog. reflexivity.
Qed.
Print Assumptions C17_reopen_at_once.

Example C17_example :
  let h := mkH false init in
  let '(h1, r1, _) := hstep (mkCfg 100 false 1 1 10 0) h (HOp (OSet [1]%N [2]%N)) in
  let '(h2, r2, t2) := hstep (mkCfg 100 false 1 1 10 0) (drop_store h1) (HOp (OSet [1]%N [3]%N)) in
  r1 = HOk VUnit /\ r2 = HClosed /\ t2 = [] /\ get (h_st h2) [1]%N = ROk (Some [2]%N).
Proof. vm_compute. repeat split. Qed.
