(* Props/C03.v — C03: a process crash at any instant loses no acknowledged write and corrupts nothing.
   Proved for the model: every crash image — any prefix of the system calls of any ready script,
   merges included, the last write cut at any byte — recovers to the map after the first n
   operations (theorem 7).  The tie to the code is by execution: `bin/check C03` compares the model's
   traces with recorded real ones and opens every crash image of the real traces with the real code. *)
From BC Require Import Store.Codec Store.CodecProofs Store.Engine Store.Log Store.Cons Store.Inv Store.Refine Store.Merge Store.Theorems Store.Crash Store.CrashScript Store.CrashMerge.
From BC Require Resp.Frame Resp.Conn Resp.OverEngine.
Open Scope N_scope.

(* 1. At every operation boundary of every ready script — merges included — the directory can be
      opened and the opened store reads exactly the acknowledged state. *)
Theorem C03_boundary_recoverable : forall c s clk, reachable c s ->
  exists s' t, open (s_dir s) clk = ROk (s', tt, t) /\ Inv s' /\ forall k, abs s' k = abs s k.
Proof.
  intros c s clk Hr. pose proof (reachable_inv c s Hr) as HI.
  destruct (hints_optional s clk HI) as (s1 & t1 & _ & _ & H1 & _ & HI1 & _ & Ha & _). eauto.
Qed.
Print Assumptions C03_boundary_recoverable.

(* 2. A set or a delete issues exactly one append before anything else; the directory before that
      call recovers to the state without the operation, the directory after it (with or without the
      new active file a rollover creates, which is empty) to the state with it: the operation in
      flight is applied entirely or not at all. *)
Theorem C03_put_atomic : forall c s k v, Inv s ->
  exists s' t pos, put c s k v = ROk (s', tt, t) /\ Inv s' /\
    slog s' = slog s ++ [(s_active s, pos, mkEntry (s_clock s) k (Some v))] /\
    (forall k', abs s' k' = if beq k' k then Some v else abs s k').
Proof.
  intros c s k v HI. destruct (put_ok c s k v HI) as (s' & t & pos & Hp & HI' & Hlog & _).
  exists s', t, pos. split; [exact Hp|]. split; [exact HI'|]. split; [exact Hlog|].
  intros k'. unfold abs. rewrite Hlog, lastval_app. cbn [lastval e_key e_val]. destruct (beq k' k); reflexivity.
Qed.
Print Assumptions C03_put_atomic.

Theorem C03_delete_atomic : forall c s k, Inv s ->
  exists s' t pos b, delete c s k = ROk (s', b, t) /\ Inv s' /\
    slog s' = slog s ++ [(s_active s, pos, mkEntry (s_clock s) k None)] /\
    (forall k', abs s' k' = if beq k' k then None else abs s k').
Proof.
  intros c s k HI. destruct (delete_ok c s k HI) as (s' & t & pos & Hp & HI' & Hlog & _).
  exists s', t, pos, (match abs s k with Some _ => true | None => false end).
  split; [exact Hp|]. split; [exact HI'|]. split; [exact Hlog|].
  intros k'. unfold abs. rewrite Hlog, lastval_app. cbn [lastval e_key e_val]. destruct (beq k' k); reflexivity.
Qed.
Print Assumptions C03_delete_atomic.

(* 3. Recovery depends on the records only: files that hold no record (a freshly created active
      file, a merge output nothing was copied to yet) and hint files do not change what is recovered. *)
Theorem C03_empty_files_invisible : forall d id, log_of_dir (d ++ [(id, empty_file)]) = log_of_dir d.
Proof. exact log_of_dir_app_empty. Qed.
Print Assumptions C03_empty_files_invisible.

(* 4. Recovery itself only creates a file. *)
Theorem C03_recovery_only_creates : forall s s' t, reopen s = ROk (s', tt, t) -> exists a, t = [SCreate (FData a)].
Proof.
  intros s s' t H. unfold reopen, open in H. destruct (rebuild_files (s_dir s) ([], [])) as [[i x]|]; [|discriminate].
  inversion H; subst. eauto.
Qed.
Print Assumptions C03_recovery_only_creates.

(* 5. The byte level.  Decoding inverts encoding whatever follows; the bytes of a file scan to exactly
      its records at the positions the engine model uses; and a file whose last record is torn at ANY
      byte scans to the same records: the torn one is reported as end of input, never as an error and
      never as a shorter record. *)
Theorem C03_decode_inverts_encode : forall e rest, wf_entry e -> dec_entry (enc_entry e ++ rest) = DOk e rest.
Proof. exact dec_entry_enc. Qed.
Print Assumptions C03_decode_inverts_encode.

Theorem C03_bytes_are_records : forall es, Forall wf_entry es -> scan dec_entry (file_bytes es) = Some (layout 0 es).
Proof. exact scan_file. Qed.
Print Assumptions C03_bytes_are_records.

Theorem C03_torn_record_invisible : forall es e p q, Forall wf_entry es -> wf_entry e -> q <> [] -> enc_entry e = p ++ q ->
  scan dec_entry (file_bytes es ++ p) = Some (layout 0 es).
Proof. exact scan_torn_file. Qed.
Print Assumptions C03_torn_record_invisible.

Example C03_torn_example :
  let e1 := mkEntry 7 [107] (Some [1; 2; 3]) in let e2 := mkEntry 8 [107] None in
  scan dec_entry (enc_entry e1 ++ firstn 17 (enc_entry e2)) = Some [(0, 29, e1)] /\
  scan dec_entry (enc_entry e1 ++ enc_entry e2) = Some [(0, 29, e1); (29, 18, e2)].
Proof. split; vm_compute; reflexivity. Qed.

(* 6. Crash safety over byte-level file-system states.  [fs_run] executes a trace of system calls on
      a file system of byte strings; a crash image of a trace is the file system after any prefix of its
      calls, the last write possibly cut at any byte ([image_of]).  [img_ok img m]: what the scanner
      reads from the image (theorem 5) is a directory that opens, and the opened store reads the map [m].
      For every script of sets, deletes, gets and reopens, every crash image of its trace recovers to
      the map after the first n operations for some n: all acknowledged operations, and the one in
      flight entirely or not at all. *)
Theorem C03_crash_safe_no_merge : forall c ops s0, no_merge ops -> rep s0 (s_dir init) -> trace_wf (snd (run c init ops)) ->
  forall img, image_of s0 (snd (run c init ops)) img ->
    exists n, (n <= length ops)%nat /\ img_ok img (abs (state_after c init ops n)).
Proof. exact crash_safe_no_merge. Qed.
Print Assumptions C03_crash_safe_no_merge.

(* [img_ok] unfolded: the image reads as some directory [d] ([reads_as]: per file the records of [d]
   plus possibly a torn tail, hinted files through their hint file only), the hint files of [d]
   describe their data files ([dir_hints_ok], part of [recovers_to]), and [d] opens to the map.
   What [reads_as] promises about the scanner is this: *)
Theorem C03_reads_as_is_what_the_scanner_reads : forall img d, reads_as img d -> wf_dir d -> wf_hints d -> dir_hints_ok d ->
  forall id f, dir_get d id = Some f ->
    match d_hint f with
    | None => exists b, img (FData id) = Some b /\ scan dec_entry b = Some (layout 0 (d_data f))
    | Some hs => (exists b, img (FHint id) = Some b /\ scan dec_hint b = Some (hint_layout 0 hs)) /\
                 (exists bd, img (FData id) = Some bd /\ Forall (fun h => h_pos h + h_len h <= blen bd) hs)
    end.
Proof. exact reads_scan. Qed.
Print Assumptions C03_reads_as_is_what_the_scanner_reads.

(* non-vacuity: a concrete script, its trace is well-formed, and a crash image that cuts the second
   write after 9 bytes exists *)
Example C03_crash_example :
  let c := mkCfg 60 false 0 1 0 1000000000 in
  let ops := [OSet [107] [1; 2]; OSet [107] [3]; ODel [107]] in
  let s0 : fs := fun f => match f with FData 0 => Some [] | _ => None end in
  rep s0 (s_dir init) /\ no_merge ops /\ trace_wf (snd (run c init ops)) /\
  exists img, image_of s0 (snd (run c init ops)) img /\
    img (FData 0) = Some (enc_entry (mkEntry 1 [107] (Some [1; 2])) ++ firstn 9 (enc_entry (mkEntry 2 [107] (Some [3])))).
Proof.
  cbv zeta. split; [|split; [|split]].
  - intros id. destruct id as [|p]; vm_compute; auto.
  - intros o [<-|[<-|[<-|[]]]]; reflexivity.
  - repeat constructor; cbn [call_wf]; eexists; (split; [|reflexivity]); unfold wf_entry, i64_ok; cbn; repeat split; lia.
  - eexists. split.
    + eapply (img_torn _ _ _ [SWrite (FData 0) (enc_entry (mkEntry 1 [107] (Some [1; 2])))] (FData 0)
                (firstn 9 (enc_entry (mkEntry 2 [107] (Some [3])))) (skipn 9 (enc_entry (mkEntry 2 [107] (Some [3]))))).
      * vm_compute. reflexivity.
      * vm_compute. discriminate.
      * cbn [app fs_run fs_step]. reflexivity.
    + vm_compute. reflexivity.
Qed.

(* 7. THE property, for every ready script — merges included.  A merge pass adds: copies of live
      records in new files (read through hint files that are written after the data, so a torn or
      missing hint only hides a copy), two fsyncs, then the removal of the selected files in ascending
      id order, hint file first; at every instant the removed set is closed downwards within the
      selection, so no tombstone disappears before the values it hides (Store/CrashMerge.v). *)
Theorem C03_crash_safe : forall c ops s0, run_ready c init ops -> rep s0 (s_dir init) -> trace_wf (snd (run c init ops)) ->
  forall img, image_of s0 (snd (run c init ops)) img ->
    exists n, (n <= length ops)%nat /\ img_ok img (abs (state_after c init ops n)).
Proof. exact crash_safe. Qed.
Print Assumptions C03_crash_safe.

(* 7s. ... for the SERVER: the per-connection loop (Resp/OverEngine.v) turns whatever bytes a connection sends, in
       whatever pieces, into a script of sets, gets and deletes on the engine ([script_of]: the commands accepted
       before the first rejected frame, one delete per key of a DEL; [handle_is_script]: the loop's engine state is
       the state after that script).  Every crash image of the system calls of that script opens to the map after
       some prefix of it: no acknowledged command of any connection is lost by a crash. *)
Theorem C03_server_crash_safe : forall c segs s0,
  let ops := Resp.OverEngine.script_of (Resp.Conn.read_all (Resp.Frame.fixed Resp.Frame.Release) segs []) in
  rep s0 (s_dir init) -> trace_wf (snd (run c init ops)) ->
  forall img, image_of s0 (snd (run c init ops)) img ->
    exists n, (n <= length ops)%nat /\ img_ok img (abs (state_after c init ops n)).
Proof. exact Resp.OverEngine.server_crash_safe. Qed.
Print Assumptions C03_server_crash_safe.

Theorem C03_server_loop_is_that_script : forall c rs s m out, Resp.OverEngine.denotes s m ->
  snd (fst (Resp.OverEngine.handle_e c s rs out)) = fst (fst (run c s (Resp.OverEngine.script_of rs))).
Proof. exact Resp.OverEngine.handle_is_script. Qed.
Print Assumptions C03_server_loop_is_that_script.

(* 7'. The same, sharp: a crash DURING operation [o], after the operations [ops1] were acknowledged,
       recovers to the state with all of [ops1], and [o] applied entirely or not at all. *)
Theorem C03_crash_during_operation : forall c ops1 o s0,
  run_ready c init (ops1 ++ [o]) -> rep s0 (s_dir init) -> trace_wf (snd (run c init (ops1 ++ [o]))) ->
  let s1 := fst (fst (run c init ops1)) in
  exists f1, fs_run s0 (snd (run c init ops1)) = Some f1 /\
    forall img, image_of f1 (snd (step c s1 o)) img ->
      img_ok img (abs s1) \/ img_ok img (abs (fst (fst (step c s1 o)))).
Proof. exact crash_during_op. Qed.
Print Assumptions C03_crash_during_operation.

Theorem C03_merge_pass_crash_safe : forall c s ord, Inv s -> merge_ready c s ord -> step_safe_at c s (OMerge ord).
Proof. exact merge_safe. Qed.
Print Assumptions C03_merge_pass_crash_safe.

(* non-vacuity for a merge: the script of C03_crash_example followed by more writes and a full merge is
   ready, its trace is executable by the byte-level file system, and ends in the model's directory *)
Example C03_merge_example :
  let c := mkCfg 60 false 0 1 0 1000000000 in
  let ops := [OSet [107] [1; 2]; OSet [108] [3]; ODel [107]; OSet [109] [4; 4; 4; 4; 4; 4; 4; 4; 4; 4; 4; 4; 4; 4; 4; 4; 4; 4; 4; 4; 4; 4; 4; 4; 4; 4; 4; 4; 4; 4]; OMerge [[108]; [109]]] in
  let s0 : fs := fun f => match f with FData 0 => Some [] | _ => None end in
  (exists s1, fs_run s0 (snd (run c init ops)) = Some s1 /\ s1 (FData 0) = None /\ s1 (FData 2) <> None) /\
  existsb (fun call => match call with SUnlink _ => true | _ => false end) (snd (run c init ops)) = true.
Proof. cbv zeta. split; [eexists; split; [vm_compute; reflexivity|split; [reflexivity|discriminate]]|vm_compute; reflexivity]. Qed.

(* Not covered by these theorems: histories with several crashes in a row (each recovery starts a
   new process whose first call creates a file: theorem 4), and the step from [reads_as] to the real
   scanner, which theorem C03_reads_as_is_what_the_scanner_reads states for the model's decoders.
   `bin/check C03` opens, with the real code, every image cut from the recorded real trace of every
   generated workload at every call boundary and at byte cuts inside writes, merges included. *)
