(* Props/C03.v *)
From BC Require Import Store.Engine.
