(* Props/C08.v — C08: RESP encode/decode round trip, independent of chunking. *)
From BC Require Import Resp.Frame Resp.Conn.
