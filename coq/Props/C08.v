(* Props/C08.v — C08: RESP encoding and decoding round-trip, independent of stream chunking.
   Model: Resp/Frame.v ([enc] = Connection::write_frame, [parse]/[check] = Frame::parse/check),
   Resp/Conn.v ([read_all] = repeated Connection::read_frame over scripted socket reads). *)
From BC Require Import Resp.Frame Resp.Conn Resp.IntProofs Resp.FrameProofs Resp.RoundTrip.
Open Scope Z_scope.

(* 1. Any frame the connection can write ([writable]: simple strings / errors that are UTF-8 without
      CR or LF, every i64, bulk strings of arbitrary bytes, null, arrays of those) is decoded back
      to the same frame by both walkers, whatever bytes follow it in the buffer, which are left
      untouched.  Debug and release alike. *)
Theorem C08_roundtrip : forall b f bs rest, writable f = true -> enc f = Ok bs ->
  parse (fixed b) (bs ++ rest) = Ok (f, rest) /\ check (fixed b) (bs ++ rest) = Ok (tt, rest).
Proof. exact roundtrip. Qed.
Print Assumptions C08_roundtrip.

(* 2. Consequently Connection::parse_frame on a buffer that starts with an encoded frame yields that
      frame and leaves exactly the remaining bytes buffered. *)
Theorem C08_parse_frame_roundtrip : forall b f bs rest, writable f = true -> enc f = Ok bs ->
  parse_frame (fixed b) (bs ++ rest) = Ok (Some (f, rest)).
Proof.
  intros b f bs rest Hw He. unfold parse_frame.
  destruct (roundtrip b f bs rest Hw He) as [Hp Hc]. rewrite Hc, Hp. reflexivity.
Qed.
Print Assumptions C08_parse_frame_roundtrip.

(* 3. The writer never panics on a writable frame, and every writable frame has an encoding;
      (nested arrays hit `unimplemented!()` in write_single_value: the model says [Panic] there and
      the property's quantifier excludes them). *)
Theorem C08_writable_encodes : forall f, writable f = true -> exists bs, enc f = Ok bs.
Proof.
  intros f Hw.
  assert (Hs : forall g, writable_single g = true -> exists bs, enc_single g = Ok bs).
  { intros g Hg. destruct g; cbn [enc_single]; eauto. discriminate. }
  destruct f as [s|s|z|bb|items|]; try (apply Hs; exact Hw).
  cbn [writable] in Hw. apply andb_true_iff in Hw as [Hw _]. cbn [enc].
  assert (Hi : exists bi, enc_items items = Ok bi).
  { induction items as [|g items IH]; [cbn; eauto|].
    cbn [forallb] in Hw. apply andb_true_iff in Hw as [Hg Hw].
    destruct (Hs g Hg) as (bg & Eg). destruct (IH Hw) as (bi & Ei). cbn [enc_items]. rewrite Eg, Ei. eauto. }
  destruct Hi as (bi & ->). eauto.
Qed.
Print Assumptions C08_writable_encodes.

Example C08_nested_array_not_writable : enc (Array [Array [Null]]) = Panic.
Proof. reflexivity. Qed.

(* Non-vacuity. *)
Example C08_roundtrip_example :
  let f := Array [Bulk [83; 69; 84]%N; Bulk [13; 10; 0; 255]%N; Integer (- 9223372036854775808); Null; Simple [79; 75]%N] in
  writable f = true /\ exists bs, enc f = Ok bs /\ parse (fixed Debug) (bs ++ [42]%N) = Ok (f, [42]%N).
Proof. cbv zeta. split; [reflexivity|]. eexists. split; [reflexivity|]. vm_compute. reflexivity. Qed.

(* Still to be proved in Coq (stated here, decided for now by the deterministic differential runs of
   `bin/check C08`, which deliver every generated stream whole, bytewise, at random cuts and inside
   each CRLF, and also cut short inside its last frame):
     C08_prefix_incomplete : writable f -> enc f = Ok bs -> strict_prefix p bs -> check (fixed b) p = Err Incomplete
     C08_stream            : Forall writable fs -> concat segs = concat (map enc fs) ->
                             read_all (fixed b) segs [] = map RFrame fs ++ [RClean]
     C08_truncated_is_error: ... stream ends inside a frame -> last result = RReset *)
