(* Props/C08.v — C08: RESP encoding and decoding round-trip, independent of stream chunking.
   Model: Resp/Frame.v ([enc] = Connection::write_frame, [parse]/[check] = Frame::parse/check),
   Resp/Conn.v ([read_all] = repeated Connection::read_frame over scripted socket reads). *)
From BC Require Import Resp.Frame Resp.Conn Resp.IntProofs Resp.FrameProofs Resp.RoundTrip Resp.Prefix Resp.Stream.
Open Scope Z_scope.

(* 1. Any frame the connection can write ([writable]: simple strings / errors that are UTF-8 without
      CR or LF, every i64, bulk strings of arbitrary bytes, null, arrays of those) is decoded back
      to the same frame by both walkers, whatever bytes follow it in the buffer, which are left
      untouched.  Debug and release alike. *)
Theorem C08_roundtrip : forall b f bs rest, writable f = true -> enc f = Ok bs ->
  parse (fixed b) (bs ++ rest) = Ok (f, rest) /\ check (fixed b) (bs ++ rest) = Ok (tt, rest).
Proof. exact roundtrip. Qed.
Print Assumptions C08_roundtrip.

(* 2. Consequently Connection::parse_frame on a buffer that starts with an encoded frame yields that
      frame and leaves exactly the remaining bytes buffered. *)
Theorem C08_parse_frame_roundtrip : forall b f bs rest, writable f = true -> enc f = Ok bs ->
  parse_frame (fixed b) (bs ++ rest) = Ok (Some (f, rest)).
Proof.
  intros b f bs rest Hw He. unfold parse_frame.
  destruct (roundtrip b f bs rest Hw He) as [Hp Hc]. rewrite Hc, Hp. reflexivity.
Qed.
Print Assumptions C08_parse_frame_roundtrip.

(* 3. The writer never panics on a writable frame, and every writable frame has an encoding;
      (nested arrays hit `unimplemented!()` in write_single_value: the model says [Panic] there and
      the property's quantifier excludes them). *)
Theorem C08_writable_encodes : forall f, writable f = true -> exists bs, enc f = Ok bs.
Proof.
  intros f Hw.
  assert (Hs : forall g, writable_single g = true -> exists bs, enc_single g = Ok bs).
  { intros g Hg. destruct g; cbn [enc_single]; eauto. discriminate. }
  destruct f as [s|s|z|bb|items|]; try (apply Hs; exact Hw).
  cbn [writable] in Hw. apply andb_true_iff in Hw as [Hw _]. cbn [enc].
  assert (Hi : exists bi, enc_items items = Ok bi).
  { induction items as [|g items IH]; [cbn; eauto|].
    cbn [forallb] in Hw. apply andb_true_iff in Hw as [Hg Hw].
    destruct (Hs g Hg) as (bg & Eg). destruct (IH Hw) as (bi & Ei). cbn [enc_items]. rewrite Eg, Ei. eauto. }
  destruct Hi as (bi & ->). eauto.
Qed.
Print Assumptions C08_writable_encodes.

Example C08_nested_array_not_writable : enc (Array [Array [Null]]) = Panic.
Proof. reflexivity. Qed.

(* Non-vacuity. *)
Example C08_roundtrip_example :
  let f := Array [Bulk [83; 69; 84]%N; Bulk [13; 10; 0; 255]%N; Integer (- 9223372036854775808); Null; Simple [79; 75]%N] in
  writable f = true /\ exists bs, enc f = Ok bs /\ parse (fixed Debug) (bs ++ [42]%N) = Ok (f, [42]%N).
Proof. cbv zeta. split; [reflexivity|]. eexists. split; [reflexivity|]. vm_compute. reflexivity. Qed.

(* 4. Every strict prefix of the encoding of a writable frame is reported as incomplete by the
      completeness check — never as an error, never as a shorter frame — so the connection waits. *)
Theorem C08_prefix_incomplete : forall b f bs p, writable f = true -> enc f = Ok bs -> sprefix p bs ->
  check (fixed b) p = Err Incomplete /\ parse_frame (fixed b) p = Ok None.
Proof. intros b f bs p Hw He Hp. split; [exact (check_prefix b f bs p Hw He Hp)|exact (parse_frame_prefix b f bs p Hw He Hp)]. Qed.
Print Assumptions C08_prefix_incomplete.

(* 5. A concatenation of encoded frames is decoded to the same sequence of frames, then a clean end,
      however the bytes are delivered: for EVERY list of socket reads [segs] whose concatenation is
      the stream (one byte at a time, all at once, cut anywhere). *)
Theorem C08_stream : forall b segs fs es, Forall2 encodes fs es -> concat segs = concat es ->
  read_all (fixed b) segs [] = map RFrame fs ++ [RClean].
Proof. intros b segs fs es HF H. exact (read_all_stream b segs fs es [] HF H). Qed.
Print Assumptions C08_stream.

(* 6. A stream that ends inside a frame delivers the frames before it and then a connection reset,
      not a clean end, again for every segmentation. *)
Theorem C08_truncated_is_error : forall b segs fs es f e part, Forall2 encodes fs es -> encodes f e ->
  sprefix part e -> part <> [] -> concat segs = concat es ++ part ->
  read_all (fixed b) segs [] = map RFrame fs ++ [RReset].
Proof. intros b segs fs es f e part HF He Hp Hn H. exact (read_all_truncated b segs fs es f e part [] HF He Hp Hn H). Qed.
Print Assumptions C08_truncated_is_error.

Example C08_stream_example :
  read_all (fixed Debug) [[43; 79]; [75; 13]; [10; 58; 45]; [53; 13; 10]]%N [] = [RFrame (Simple [79; 75]%N); RFrame (Integer (-5)); RClean].
Proof. vm_compute. reflexivity. Qed.
