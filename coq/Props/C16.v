(* Props/C16.v — C16: graceful shutdown terminates, keeps acknowledged data, and tears no reply.
   Model: Sys/Shutdown.v (Server::run's select, the broadcast drop, the handler loop, the completion
   channel).  tokio's select!, broadcast and mpsc semantics are modelled, not verified: partial.
   One recorded finding (known_findings.json): a handler blocked writing a reply to a client that
   does not read keeps run from returning ([C16_known_refuted]). *)
From Coq Require Import List Arith.
Import ListNotations.
From BC Require Import Sys.Shutdown.

(* 1. Every reply a client has received belongs to an operation the store has already applied:
      a reply is emitted only after its store operation returned. *)
Theorem C16_acked_applied : forall es s s' c, sys_ok s -> run s es = Some s' -> In c (conns s') -> replied c <= applied c.
Proof. exact replies_follow_store. Qed.
Print Assumptions C16_acked_applied.

(* 2. No torn reply: replies become visible whole (one event per complete reply), and a handler
      that has ended has written a whole reply for every operation it applied — it can only leave
      at the select between two commands, never inside one. *)
Theorem C16_replies_whole : forall es s s' c, sys_ok s -> run s es = Some s' -> In c (conns s') -> hs c = HEnded ->
  replied c = applied c.
Proof. exact ended_means_all_replied. Qed.
Print Assumptions C16_replies_whole.

(* 3. Termination: once the signal is out, if no handler is blocked writing to a client that does
      not read, run can return after at most three events per connection plus one, without any
      client action — whatever each client is doing (idle, mid-frame, mid-command). *)
Theorem C16_terminates : forall l, Forall unblocked l ->
  exists es, length es <= 3 * length l + 1 /\
    exists l', run (mkSys Draining l) es = Some (mkSys Returned l') /\ Forall (fun c => hs c = HEnded) l'.
Proof. intros l Hu. destruct (can_always_return l [] Hu (Forall_nil _)) as (es & Hlen & l' & Hr & Hl'). exists es. split; [exact Hlen|]. exists l'. auto. Qed.
Print Assumptions C16_terminates.

(* 4. The recorded finding, as a theorem about the model: while some handler is blocked in a write
      to a client that never reads, run does not return, for every continuation. *)
Theorem C16_known_refuted : forall es s s' i c, ph s <> Returned -> nth_error (conns s) i = Some c -> blocked c ->
  Forall (no_read_of i) es -> run s es = Some s' -> ph s' <> Returned.
Proof. intros es s s' i c Hp En Hb Hes E. exact (proj1 (blocked_never_returns es s s' i c Hp En Hb Hes E)). Qed.
Print Assumptions C16_known_refuted.

Example C16_example :
  let s0 := mkSys Running [mkConn (HWait 2) 0 0 true; mkConn (HWait 0) 0 0 true] in
  run s0 [StartCmd 0; OpDone 0; Fire; ReplyDone 0; Observe 0; Observe 1; Return]
  = Some (mkSys Returned [mkConn HEnded 1 1 true; mkConn HEnded 0 0 true]).
Proof. reflexivity. Qed.
