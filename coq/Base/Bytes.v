(* Base/Bytes.v — bytes, outcomes, association maps, printing helpers shared by every model file.
   No proofs about the models live here, only generic facts. *)
From Coq Require Export List NArith ZArith Bool Lia.
Export ListNotations.

Global Arguments N.add : simpl never.
Global Arguments N.sub : simpl never.
Global Arguments N.mul : simpl never.
Global Arguments N.eqb : simpl never.
Global Arguments N.ltb : simpl never.
Global Arguments N.leb : simpl never.
Global Arguments Z.add : simpl never.
Global Arguments Z.sub : simpl never.
Global Arguments Z.mul : simpl never.
Global Arguments Z.eqb : simpl never.
Global Arguments Z.ltb : simpl never.
Global Arguments Z.leb : simpl never.

Notation byte := N (only parsing).
Notation bytes := (list N) (only parsing).

Definition blen (l : bytes) : N := N.of_nat (length l).

(* ---------- equality on byte strings ---------- *)
Fixpoint beq (a b : bytes) : bool :=
  match a, b with
  | [], [] => true
  | x :: a', y :: b' => (x =? y)%N && beq a' b'
  | _, _ => false
  end.

Lemma beq_spec a : forall b, reflect (a = b) (beq a b).
Proof.
  induction a as [|x a IH]; intros [|y b]; cbn [beq]; try (constructor; congruence).
  destruct (N.eqb_spec x y) as [->|Hne]; cbn [andb].
  - destruct (IH b) as [->|Hne]; constructor; congruence.
  - constructor; congruence.
Qed.

Lemma beq_refl a : beq a a = true.
Proof. destruct (beq_spec a a); congruence. Qed.

Lemma beq_eq a b : beq a b = true -> a = b.
Proof. destruct (beq_spec a b); congruence. Qed.

Lemma beq_neq a b : a <> b -> beq a b = false.
Proof. destruct (beq_spec a b); congruence. Qed.

(* ---------- association maps as update logs (first match wins) ---------- *)
Section AMap.
  Context {K V : Type} (keq : K -> K -> bool).
  Definition amap := list (K * option V).
  Fixpoint aget (m : amap) (k : K) : option V :=
    match m with
    | [] => None
    | (k', o) :: m' => if keq k k' then o else aget m' k
    end.
  Definition aset (m : amap) (k : K) (v : V) : amap := (k, Some v) :: m.
  Definition adel (m : amap) (k : K) : amap := (k, None) :: m.
  (* keys bound to something, each once, most recently touched first *)
  Fixpoint akeys_aux (m : amap) (seen : list K) : list K :=
    match m with
    | [] => []
    | (k, o) :: m' =>
      if existsb (keq k) seen then akeys_aux m' seen
      else match o with
           | Some _ => k :: akeys_aux m' (k :: seen)
           | None => akeys_aux m' (k :: seen)
           end
    end.
  Definition akeys (m : amap) : list K := akeys_aux m [].
End AMap.
Arguments amap : clear implicits.

(* ---------- little-endian fixed width integers ---------- *)
Fixpoint le_bytes (n : nat) (x : N) : bytes :=
  match n with
  | O => []
  | S n' => (x mod 256)%N :: le_bytes n' (x / 256)%N
  end.

Fixpoint le_value (l : bytes) : N :=
  match l with
  | [] => 0%N
  | b :: l' => (b + 256 * le_value l')%N
  end.

Definition u64_bytes (x : N) : bytes := le_bytes 8 x.
Definition i64_bytes (z : Z) : bytes := le_bytes 8 (Z.to_N (z mod 2 ^ 64)).
Definition i64_of_u64 (x : N) : Z :=
  if (x <? 2 ^ 63)%N then Z.of_N x else (Z.of_N x - 2 ^ 64)%Z.

Definition is_byte (b : N) : bool := (b <? 256)%N.
Definition all_bytes (l : bytes) : bool := forallb is_byte l.

(* ---------- UTF-8 validity, as std::str::from_utf8 decides it ---------- *)
Definition in_rng (lo hi b : N) : bool := ((lo <=? b) && (b <=? hi))%N.
Definition cont (b : N) : bool := in_rng 128 191 b.

Fixpoint is_utf8_fuel (fuel : nat) (l : bytes) : bool :=
  match fuel with
  | O => match l with [] => true | _ => false end
  | S f =>
    match l with
    | [] => true
    | b0 :: r0 =>
      if (b0 <? 128)%N then is_utf8_fuel f r0
      else if in_rng 194 223 b0 then
        match r0 with b1 :: r1 => cont b1 && is_utf8_fuel f r1 | _ => false end
      else if (b0 =? 224)%N then
        match r0 with b1 :: b2 :: r2 => in_rng 160 191 b1 && cont b2 && is_utf8_fuel f r2 | _ => false end
      else if in_rng 225 236 b0 || in_rng 238 239 b0 then
        match r0 with b1 :: b2 :: r2 => cont b1 && cont b2 && is_utf8_fuel f r2 | _ => false end
      else if (b0 =? 237)%N then
        match r0 with b1 :: b2 :: r2 => in_rng 128 159 b1 && cont b2 && is_utf8_fuel f r2 | _ => false end
      else if (b0 =? 240)%N then
        match r0 with b1 :: b2 :: b3 :: r3 => in_rng 144 191 b1 && cont b2 && cont b3 && is_utf8_fuel f r3 | _ => false end
      else if in_rng 241 243 b0 then
        match r0 with b1 :: b2 :: b3 :: r3 => cont b1 && cont b2 && cont b3 && is_utf8_fuel f r3 | _ => false end
      else if (b0 =? 244)%N then
        match r0 with b1 :: b2 :: b3 :: r3 => in_rng 128 143 b1 && cont b2 && cont b3 && is_utf8_fuel f r3 | _ => false end
      else false
    end
  end.
Definition is_utf8 (l : bytes) : bool := is_utf8_fuel (length l) l.

(* [k] copies of [pat] then [tail]: compact description of deeply nested inputs in case files *)
Definition nest (k : N) (pat tail : bytes) : bytes := concat (repeat pat (N.to_nat k)) ++ tail.

(* ---------- printing (used only by the correspondence runs) ---------- *)
From Coq Require Import Ascii String DecimalString.
Open Scope string_scope.
Definition hex_byte (b : N) : string :=
  match b with
  | 0%N => "00"
  | 1%N => "01"
  | 2%N => "02"
  | 3%N => "03"
  | 4%N => "04"
  | 5%N => "05"
  | 6%N => "06"
  | 7%N => "07"
  | 8%N => "08"
  | 9%N => "09"
  | 10%N => "0a"
  | 11%N => "0b"
  | 12%N => "0c"
  | 13%N => "0d"
  | 14%N => "0e"
  | 15%N => "0f"
  | 16%N => "10"
  | 17%N => "11"
  | 18%N => "12"
  | 19%N => "13"
  | 20%N => "14"
  | 21%N => "15"
  | 22%N => "16"
  | 23%N => "17"
  | 24%N => "18"
  | 25%N => "19"
  | 26%N => "1a"
  | 27%N => "1b"
  | 28%N => "1c"
  | 29%N => "1d"
  | 30%N => "1e"
  | 31%N => "1f"
  | 32%N => "20"
  | 33%N => "21"
  | 34%N => "22"
  | 35%N => "23"
  | 36%N => "24"
  | 37%N => "25"
  | 38%N => "26"
  | 39%N => "27"
  | 40%N => "28"
  | 41%N => "29"
  | 42%N => "2a"
  | 43%N => "2b"
  | 44%N => "2c"
  | 45%N => "2d"
  | 46%N => "2e"
  | 47%N => "2f"
  | 48%N => "30"
  | 49%N => "31"
  | 50%N => "32"
  | 51%N => "33"
  | 52%N => "34"
  | 53%N => "35"
  | 54%N => "36"
  | 55%N => "37"
  | 56%N => "38"
  | 57%N => "39"
  | 58%N => "3a"
  | 59%N => "3b"
  | 60%N => "3c"
  | 61%N => "3d"
  | 62%N => "3e"
  | 63%N => "3f"
  | 64%N => "40"
  | 65%N => "41"
  | 66%N => "42"
  | 67%N => "43"
  | 68%N => "44"
  | 69%N => "45"
  | 70%N => "46"
  | 71%N => "47"
  | 72%N => "48"
  | 73%N => "49"
  | 74%N => "4a"
  | 75%N => "4b"
  | 76%N => "4c"
  | 77%N => "4d"
  | 78%N => "4e"
  | 79%N => "4f"
  | 80%N => "50"
  | 81%N => "51"
  | 82%N => "52"
  | 83%N => "53"
  | 84%N => "54"
  | 85%N => "55"
  | 86%N => "56"
  | 87%N => "57"
  | 88%N => "58"
  | 89%N => "59"
  | 90%N => "5a"
  | 91%N => "5b"
  | 92%N => "5c"
  | 93%N => "5d"
  | 94%N => "5e"
  | 95%N => "5f"
  | 96%N => "60"
  | 97%N => "61"
  | 98%N => "62"
  | 99%N => "63"
  | 100%N => "64"
  | 101%N => "65"
  | 102%N => "66"
  | 103%N => "67"
  | 104%N => "68"
  | 105%N => "69"
  | 106%N => "6a"
  | 107%N => "6b"
  | 108%N => "6c"
  | 109%N => "6d"
  | 110%N => "6e"
  | 111%N => "6f"
  | 112%N => "70"
  | 113%N => "71"
  | 114%N => "72"
  | 115%N => "73"
  | 116%N => "74"
  | 117%N => "75"
  | 118%N => "76"
  | 119%N => "77"
  | 120%N => "78"
  | 121%N => "79"
  | 122%N => "7a"
  | 123%N => "7b"
  | 124%N => "7c"
  | 125%N => "7d"
  | 126%N => "7e"
  | 127%N => "7f"
  | 128%N => "80"
  | 129%N => "81"
  | 130%N => "82"
  | 131%N => "83"
  | 132%N => "84"
  | 133%N => "85"
  | 134%N => "86"
  | 135%N => "87"
  | 136%N => "88"
  | 137%N => "89"
  | 138%N => "8a"
  | 139%N => "8b"
  | 140%N => "8c"
  | 141%N => "8d"
  | 142%N => "8e"
  | 143%N => "8f"
  | 144%N => "90"
  | 145%N => "91"
  | 146%N => "92"
  | 147%N => "93"
  | 148%N => "94"
  | 149%N => "95"
  | 150%N => "96"
  | 151%N => "97"
  | 152%N => "98"
  | 153%N => "99"
  | 154%N => "9a"
  | 155%N => "9b"
  | 156%N => "9c"
  | 157%N => "9d"
  | 158%N => "9e"
  | 159%N => "9f"
  | 160%N => "a0"
  | 161%N => "a1"
  | 162%N => "a2"
  | 163%N => "a3"
  | 164%N => "a4"
  | 165%N => "a5"
  | 166%N => "a6"
  | 167%N => "a7"
  | 168%N => "a8"
  | 169%N => "a9"
  | 170%N => "aa"
  | 171%N => "ab"
  | 172%N => "ac"
  | 173%N => "ad"
  | 174%N => "ae"
  | 175%N => "af"
  | 176%N => "b0"
  | 177%N => "b1"
  | 178%N => "b2"
  | 179%N => "b3"
  | 180%N => "b4"
  | 181%N => "b5"
  | 182%N => "b6"
  | 183%N => "b7"
  | 184%N => "b8"
  | 185%N => "b9"
  | 186%N => "ba"
  | 187%N => "bb"
  | 188%N => "bc"
  | 189%N => "bd"
  | 190%N => "be"
  | 191%N => "bf"
  | 192%N => "c0"
  | 193%N => "c1"
  | 194%N => "c2"
  | 195%N => "c3"
  | 196%N => "c4"
  | 197%N => "c5"
  | 198%N => "c6"
  | 199%N => "c7"
  | 200%N => "c8"
  | 201%N => "c9"
  | 202%N => "ca"
  | 203%N => "cb"
  | 204%N => "cc"
  | 205%N => "cd"
  | 206%N => "ce"
  | 207%N => "cf"
  | 208%N => "d0"
  | 209%N => "d1"
  | 210%N => "d2"
  | 211%N => "d3"
  | 212%N => "d4"
  | 213%N => "d5"
  | 214%N => "d6"
  | 215%N => "d7"
  | 216%N => "d8"
  | 217%N => "d9"
  | 218%N => "da"
  | 219%N => "db"
  | 220%N => "dc"
  | 221%N => "dd"
  | 222%N => "de"
  | 223%N => "df"
  | 224%N => "e0"
  | 225%N => "e1"
  | 226%N => "e2"
  | 227%N => "e3"
  | 228%N => "e4"
  | 229%N => "e5"
  | 230%N => "e6"
  | 231%N => "e7"
  | 232%N => "e8"
  | 233%N => "e9"
  | 234%N => "ea"
  | 235%N => "eb"
  | 236%N => "ec"
  | 237%N => "ed"
  | 238%N => "ee"
  | 239%N => "ef"
  | 240%N => "f0"
  | 241%N => "f1"
  | 242%N => "f2"
  | 243%N => "f3"
  | 244%N => "f4"
  | 245%N => "f5"
  | 246%N => "f6"
  | 247%N => "f7"
  | 248%N => "f8"
  | 249%N => "f9"
  | 250%N => "fa"
  | 251%N => "fb"
  | 252%N => "fc"
  | 253%N => "fd"
  | 254%N => "fe"
  | 255%N => "ff"
  | _ => "??"
  end.
Fixpoint hex_of (l : bytes) : string :=
  match l with
  | [] => EmptyString
  | b :: l' => hex_byte b ++ hex_of l'
  end.
Definition show_N (n : N) : string := NilZero.string_of_uint (N.to_uint n).
Definition blob_hash (l : bytes) : N := fold_left (fun h b => (h * 31 + b) mod 4294967296)%N l 0%N.
(* byte strings longer than 64 bytes are shown as length and a rolling hash *)
Definition show_hex (l : bytes) : string :=
  match l with
  | [] => "-"
  | _ => if (64 <? blen l)%N then "#" ++ show_N (blen l) ++ "#" ++ show_N (blob_hash l) else hex_of l
  end.
Definition show_Z (z : Z) : string := NilZero.string_of_int (Z.to_int z).
Definition show_bool (b : bool) : string := if b then "1" else "0".
Definition nl : string := String (ascii_of_N 10) EmptyString.
Fixpoint join (sep : string) (l : list string) : string :=
  match l with
  | [] => EmptyString
  | [x] => x
  | x :: l' => x ++ sep ++ join sep l'
  end.
Close Scope string_scope.

(* repeat a byte: compact notation for big values in case files *)
Definition rep (n : N) (b : N) : bytes := List.repeat b (N.to_nat n).
