(* Base/Bytes.v — bytes, outcomes, association maps, printing helpers shared by every model file.
   No proofs about the models live here, only generic facts. *)
From Coq Require Export List NArith ZArith Bool Lia.
Export ListNotations.

Global Arguments N.add : simpl never.
Global Arguments N.sub : simpl never.
Global Arguments N.mul : simpl never.
Global Arguments N.eqb : simpl never.
Global Arguments N.ltb : simpl never.
Global Arguments N.leb : simpl never.
Global Arguments Z.add : simpl never.
Global Arguments Z.sub : simpl never.
Global Arguments Z.mul : simpl never.
Global Arguments Z.eqb : simpl never.
Global Arguments Z.ltb : simpl never.
Global Arguments Z.leb : simpl never.

Notation byte := N (only parsing).
Notation bytes := (list N) (only parsing).

Definition blen (l : bytes) : N := N.of_nat (length l).

(* ---------- equality on byte strings ---------- *)
Fixpoint beq (a b : bytes) : bool :=
  match a, b with
  | [], [] => true
  | x :: a', y :: b' => (x =? y)%N && beq a' b'
  | _, _ => false
  end.

Lemma beq_spec a : forall b, reflect (a = b) (beq a b).
Proof.
  induction a as [|x a IH]; intros [|y b]; cbn [beq]; try (constructor; congruence).
  destruct (N.eqb_spec x y) as [->|Hne]; cbn [andb].
  - destruct (IH b) as [->|Hne]; constructor; congruence.
  - constructor; congruence.
Qed.

Lemma beq_refl a : beq a a = true.
Proof. destruct (beq_spec a a); congruence. Qed.

Lemma beq_eq a b : beq a b = true -> a = b.
Proof. destruct (beq_spec a b); congruence. Qed.

Lemma beq_neq a b : a <> b -> beq a b = false.
Proof. destruct (beq_spec a b); congruence. Qed.

(* ---------- association maps as update logs (first match wins) ---------- *)
Section AMap.
  Context {K V : Type} (keq : K -> K -> bool).
  Definition amap := list (K * option V).
  Fixpoint aget (m : amap) (k : K) : option V :=
    match m with
    | [] => None
    | (k', o) :: m' => if keq k k' then o else aget m' k
    end.
  Definition aset (m : amap) (k : K) (v : V) : amap := (k, Some v) :: m.
  Definition adel (m : amap) (k : K) : amap := (k, None) :: m.
  (* keys bound to something, each once, most recently touched first *)
  Fixpoint akeys_aux (m : amap) (seen : list K) : list K :=
    match m with
    | [] => []
    | (k, o) :: m' =>
      if existsb (keq k) seen then akeys_aux m' seen
      else match o with
           | Some _ => k :: akeys_aux m' (k :: seen)
           | None => akeys_aux m' (k :: seen)
           end
    end.
  Definition akeys (m : amap) : list K := akeys_aux m [].
End AMap.
Arguments amap : clear implicits.

(* ---------- little-endian fixed width integers ---------- *)
Fixpoint le_bytes (n : nat) (x : N) : bytes :=
  match n with
  | O => []
  | S n' => (x mod 256)%N :: le_bytes n' (x / 256)%N
  end.

Fixpoint le_value (l : bytes) : N :=
  match l with
  | [] => 0%N
  | b :: l' => (b + 256 * le_value l')%N
  end.

Definition u64_bytes (x : N) : bytes := le_bytes 8 x.
Definition i64_bytes (z : Z) : bytes := le_bytes 8 (Z.to_N (z mod 2 ^ 64)).
Definition i64_of_u64 (x : N) : Z :=
  if (x <? 2 ^ 63)%N then Z.of_N x else (Z.of_N x - 2 ^ 64)%Z.

Definition is_byte (b : N) : bool := (b <? 256)%N.
Definition all_bytes (l : bytes) : bool := forallb is_byte l.

(* ---------- UTF-8 validity, as std::str::from_utf8 decides it ---------- *)
Definition in_rng (lo hi b : N) : bool := ((lo <=? b) && (b <=? hi))%N.
Definition cont (b : N) : bool := in_rng 128 191 b.

Fixpoint is_utf8_fuel (fuel : nat) (l : bytes) : bool :=
  match fuel with
  | O => match l with [] => true | _ => false end
  | S f =>
    match l with
    | [] => true
    | b0 :: r0 =>
      if (b0 <? 128)%N then is_utf8_fuel f r0
      else if in_rng 194 223 b0 then
        match r0 with b1 :: r1 => cont b1 && is_utf8_fuel f r1 | _ => false end
      else if (b0 =? 224)%N then
        match r0 with b1 :: b2 :: r2 => in_rng 160 191 b1 && cont b2 && is_utf8_fuel f r2 | _ => false end
      else if in_rng 225 236 b0 || in_rng 238 239 b0 then
        match r0 with b1 :: b2 :: r2 => cont b1 && cont b2 && is_utf8_fuel f r2 | _ => false end
      else if (b0 =? 237)%N then
        match r0 with b1 :: b2 :: r2 => in_rng 128 159 b1 && cont b2 && is_utf8_fuel f r2 | _ => false end
      else if (b0 =? 240)%N then
        match r0 with b1 :: b2 :: b3 :: r3 => in_rng 144 191 b1 && cont b2 && cont b3 && is_utf8_fuel f r3 | _ => false end
      else if in_rng 241 243 b0 then
        match r0 with b1 :: b2 :: b3 :: r3 => cont b1 && cont b2 && cont b3 && is_utf8_fuel f r3 | _ => false end
      else if (b0 =? 244)%N then
        match r0 with b1 :: b2 :: b3 :: r3 => in_rng 128 143 b1 && cont b2 && cont b3 && is_utf8_fuel f r3 | _ => false end
      else false
    end
  end.
Definition is_utf8 (l : bytes) : bool := is_utf8_fuel (length l) l.

(* [k] copies of [pat] then [tail]: compact description of deeply nested inputs in case files *)
Definition nest (k : N) (pat tail : bytes) : bytes := concat (repeat pat (N.to_nat k)) ++ tail.

(* ---------- printing (used only by the correspondence runs) ---------- *)
From Coq Require Import Ascii String DecimalString.
Open Scope string_scope.
Definition hex_digit (n : N) : ascii :=
  ascii_of_N (if (n <? 10)%N then 48 + n else 87 + n)%N.
Fixpoint hex_of (l : bytes) : string :=
  match l with
  | [] => EmptyString
  | b :: l' => String (hex_digit (b / 16)%N) (String (hex_digit (b mod 16)%N) (hex_of l'))
  end.
Definition show_N (n : N) : string := NilZero.string_of_uint (N.to_uint n).
Definition blob_hash (l : bytes) : N := fold_left (fun h b => (h * 31 + b) mod 4294967296)%N l 0%N.
(* byte strings longer than 64 bytes are shown as length and a rolling hash *)
Definition show_hex (l : bytes) : string :=
  match l with
  | [] => "-"
  | _ => if (64 <? blen l)%N then "#" ++ show_N (blen l) ++ "#" ++ show_N (blob_hash l) else hex_of l
  end.
Definition show_Z (z : Z) : string := NilZero.string_of_int (Z.to_int z).
Definition show_bool (b : bool) : string := if b then "1" else "0".
Definition nl : string := String (ascii_of_N 10) EmptyString.
Fixpoint join (sep : string) (l : list string) : string :=
  match l with
  | [] => EmptyString
  | [x] => x
  | x :: l' => x ++ sep ++ join sep l'
  end.
Close Scope string_scope.

(* repeat a byte: compact notation for big values in case files *)
Definition rep (n : N) (b : N) : bytes := List.repeat b (N.to_nat n).
