(* Conc/StoreSafe.v — safety of the interleaving model with the repaired remap rule: no reachable
   state has a panicked thread, whatever the schedule and however a record's bytes trickle into the
   file; and the pinned rule is refuted by an explicit schedule. *)
From Coq Require Import List Arith Lia Bool.
Import ListNotations.
From BC Require Import Conc.StoreLTS.

Lemma size_app a b : size (a ++ b) = size a + size b.
Proof. induction a as [|r a IH]; cbn [app size]; lia. Qed.

Lemma rec_at_app : forall l l' pos r, rec_at l pos = Some r -> rec_at (l ++ l') pos = Some r.
Proof.
  induction l as [|x l IH]; intros l' pos r H; cbn [rec_at app] in *; [discriminate|].
  destruct (Nat.eqb pos 0); [exact H|]. destruct (Nat.ltb pos (rlen x)); [discriminate|]. apply IH. exact H.
Qed.

Lemma rec_at_end : forall l r, 0 < rlen r -> (forall x, In x l -> 0 < rlen x) -> rec_at (l ++ [r]) (size l) = Some r.
Proof.
  induction l as [|x l IH]; intros r Hr Hl; cbn [app size rec_at]; [reflexivity|].
  assert (Hx : 0 < rlen x) by (apply Hl; left; reflexivity).
  replace (Nat.eqb (rlen x + size l) 0) with false by (symmetry; apply Nat.eqb_neq; lia).
  replace (Nat.ltb (rlen x + size l) (rlen x)) with false by (symmetry; apply Nat.ltb_ge; lia).
  replace (rlen x + size l - rlen x) with (size l) by lia. apply IH; [exact Hr|]. intros y Hy. apply Hl. right. exact Hy.
Qed.

Lemma rec_at_bound : forall l pos r, rec_at l pos = Some r -> pos + rlen r <= size l.
Proof.
  induction l as [|x l IH]; intros pos r H; cbn [rec_at size] in *; [discriminate|].
  destruct (Nat.eqb pos 0) eqn:E0; [apply Nat.eqb_eq in E0; inversion H; subst; lia|].
  destruct (Nat.ltb pos (rlen x)) eqn:E1; [discriminate|]. apply Nat.ltb_ge in E1. specialize (IH _ _ H). lia.
Qed.

Section Safe.
Notation step := (lstep rule_fixed).
Notation run := (lrun rule_fixed).

(* a location is good: it denotes a whole record of the file *)
Definition good_loc (s : lst) (k : key) (loc : nat * nat) : Prop :=
  exists rc, rec_at (data s) (fst loc) = Some rc /\ rlen rc = snd loc /\ rk rc = k.

Definition thread_ok (s : lst) (p : pc) : Prop :=
  match p with
  | PGLooked k ml (Some loc) r => good_loc s k loc
  | PGRemapped k ml loc r => good_loc s k loc /\ fst loc + snd loc <= ml
  | PWWritten o pos => rec_at (data s) pos = Some (rec_of o)
  | PPanicked => False
  | _ => True
  end.

Definition holds_lock (p : pc) : bool :=
  match p with PWLocked _ | PWWriting _ | PWWritten _ _ | PWPublished _ => true | _ => false end.

Definition safe (s : lst) : Prop :=
  (forall x, In x (data s) -> 0 < rlen x) /\
  (forall k loc, index s k = Some loc -> good_loc s k loc) /\
  (forall t, thread_ok s (thr s t)) /\
  (forall r m, partial s = Some (r, m) -> 0 < rlen r) /\
  (* mutual exclusion of writers, and the partial record belongs to the writing thread *)
  (forall t, holds_lock (thr s t) = true -> wlock s = Some t) /\
  (forall t o, thr s t = PWWriting o -> exists m, partial s = Some (rec_of o, m)).

Lemma good_loc_mono s s' k loc : (forall pos r, rec_at (data s) pos = Some r -> rec_at (data s') pos = Some r) ->
  good_loc s k loc -> good_loc s' k loc.
Proof. intros H (rc & H1 & H2 & H3). exists rc. auto. Qed.

Lemma thread_ok_mono s s' p : (forall pos r, rec_at (data s) pos = Some r -> rec_at (data s') pos = Some r) ->
  thread_ok s p -> thread_ok s' p.
Proof.
  intros H. destruct p; cbn [thread_ok]; auto.
  - destruct loc; [apply good_loc_mono; exact H|auto].
  - intros [H1 H2]. split; [eapply good_loc_mono; eassumption|exact H2].
Qed.

Lemma upd_same {A} (f : nat -> A) t x : upd f t x t = x.
Proof. unfold upd. rewrite Nat.eqb_refl. reflexivity. Qed.
Lemma upd_other {A} (f : nat -> A) t u x : u <> t -> upd f t x u = f u.
Proof. intros H. unfold upd. apply Nat.eqb_neq in H. rewrite H. reflexivity. Qed.

(* generic preservation: thread [t] moves to [p'], the data may grow, the lock and the partial record
   change as stated by the side conditions *)
Lemma safe_update s s' t p' :
  safe s ->
  (forall pos r, rec_at (data s) pos = Some r -> rec_at (data s') pos = Some r) ->
  (forall x, In x (data s') -> 0 < rlen x) ->
  thr s' = upd (thr s) t p' ->
  (forall k loc, index s' k = Some loc -> good_loc s' k loc) ->
  thread_ok s' p' ->
  (forall r m, partial s' = Some (r, m) -> 0 < rlen r) ->
  (forall u, holds_lock (thr s' u) = true -> wlock s' = Some u) ->
  (forall u o, thr s' u = PWWriting o -> exists m, partial s' = Some (rec_of o, m)) ->
  safe s'.
Proof.
  intros (Hd & Hi & Ht & Hp & Hm & Hk) Hmono Hd' Ethr Hi' Hp' Hpart' Hm' Hk'.
  unfold safe. repeat split; auto.
  intros u. rewrite Ethr. destruct (Nat.eq_dec u t) as [->|Hne]; [rewrite upd_same; exact Hp'|].
  rewrite upd_other by exact Hne. eapply thread_ok_mono; [exact Hmono|apply Ht].
Qed.

(* standard discharge of the eight obligations of [safe_update]; [tac_ok] proves thread_ok of the new pc,
   the others are given per case where the default does not apply *)
Ltac same_data := intros; assumption.

Lemma step_safe s e s' : safe s -> step s e = Some s' -> safe s'.
Proof.
  intros HS E. pose proof HS as (Hd & Hi & Ht & Hp & Hm & Hk).
  assert (Hlock_other : forall t p' u, holds_lock p' = false -> holds_lock (upd (thr s) t p' u) = true -> wlock s = Some u).
  { intros t p' u Hp' H. destruct (Nat.eq_dec u t) as [->|Hne]; [rewrite upd_same in H; congruence|rewrite upd_other in H by exact Hne; auto]. }
  assert (Hlock_self : forall t p' u, wlock s = Some t -> holds_lock (upd (thr s) t p' u) = true -> wlock s = Some u).
  { intros t p' u Hw H. destruct (Nat.eq_dec u t) as [->|Hne]; [exact Hw|rewrite upd_other in H by exact Hne; auto]. }
  assert (Hwr_other : forall t p' u o, (forall o', p' <> PWWriting o') -> upd (thr s) t p' u = PWWriting o -> exists m, partial s = Some (rec_of o, m)).
  { intros t p' u o Hp' H. destruct (Nat.eq_dec u t) as [->|Hne]; [rewrite upd_same in H; exfalso; eapply Hp'; exact H|rewrite upd_other in H by exact Hne; eauto]. }
  destruct e as [t o|t|t|t n|t|t|t|t|t|t|t|t|t]; unfold lstep in E.
  - (* invoke *)
    destruct (thr s t) eqn:Et; try discriminate. destruct (wf_op o) eqn:Ewf; [|discriminate]. inversion E; subst; clear E. unfold set_thr.
    eapply (safe_update s _ t _ HS); cbn [data index thr partial wlock].
    + same_data.
    + exact Hd.
    + reflexivity.
    + exact Hi.
    + destruct o; exact I.
    + exact Hp.
    + intros u H. eapply Hlock_other; [|exact H]. destruct o; reflexivity.
    + intros u o0 H. eapply Hwr_other; [|exact H]. intros o'; destruct o; discriminate.
  - (* lock *)
    destruct (thr s t) eqn:Et; try discriminate. destruct (wlock s) eqn:Ew; try discriminate. inversion E; subst; clear E.
    eapply (safe_update s _ t _ HS); cbn [data index thr partial wlock].
    + same_data.
    + exact Hd.
    + reflexivity.
    + exact Hi.
    + exact I.
    + exact Hp.
    + intros u H. destruct (Nat.eq_dec u t) as [->|Hne]; [reflexivity|]. rewrite upd_other in H by exact Hne. specialize (Hm u H). congruence.
    + intros u o0 H. eapply Hwr_other; [|exact H]. discriminate.
  - (* begin *)
    destruct (thr s t) eqn:Et; try discriminate. destruct (partial s) eqn:Ep; try discriminate.
    destruct (Nat.ltb 0 (rlen (rec_of o))) eqn:El; [|discriminate]. inversion E; subst; clear E. apply Nat.ltb_lt in El.
    assert (Hw : wlock s = Some t) by (apply Hm; rewrite Et; reflexivity).
    eapply (safe_update s _ t _ HS); cbn [data index thr partial wlock].
    + same_data.
    + exact Hd.
    + reflexivity.
    + exact Hi.
    + exact I.
    + intros r m H. inversion H; subst. exact El.
    + intros u H. eapply Hlock_self; [exact Hw|exact H].
    + intros u o0 H. destruct (Nat.eq_dec u t) as [->|Hne]; [rewrite upd_same in H; inversion H; subst; eauto|].
      rewrite upd_other in H by exact Hne. destruct (Hk u o0 H) as (m & Hm'). congruence.
  - (* grow *)
    destruct (thr s t) eqn:Et; try discriminate. destruct (partial s) as [[r m]|] eqn:Ep; try discriminate.
    destruct (Nat.leb (m + n) (rlen r)); [|discriminate]. inversion E; subst; clear E.
    unfold safe. cbn [data index thr partial wlock].
    refine (conj Hd (conj Hi (conj Ht (conj _ (conj Hm _))))).
    + intros r0 m0 H. inversion H; subst. eapply Hp. reflexivity.
    + intros u o0 H. destruct (Hk u o0 H) as (m' & Hm'). inversion Hm'; subst. eauto.
  - (* finish *)
    destruct (thr s t) eqn:Et; try discriminate. destruct (partial s) as [[r m]|] eqn:Ep; try discriminate.
    destruct (Nat.eqb m (rlen r)); [|discriminate]. inversion E; subst; clear E.
    assert (Hr : 0 < rlen r) by (eapply Hp; reflexivity).
    assert (Hro : r = rec_of o) by (destruct (Hk t o Et) as (m' & Hm'); congruence).
    assert (Hw : wlock s = Some t) by (apply Hm; rewrite Et; reflexivity).
    assert (Hmono : forall pos r0, rec_at (data s) pos = Some r0 -> rec_at (data s ++ [r]) pos = Some r0)
      by (intros; apply rec_at_app; assumption).
    eapply (safe_update s _ t _ HS); cbn [data index thr partial wlock].
    + exact Hmono.
    + intros x Hx. apply in_app_or in Hx as [Hx|[<-|[]]]; auto.
    + reflexivity.
    + intros k loc H. apply (good_loc_mono s); [exact Hmono|auto].
    + cbn [thread_ok data]. rewrite <- Hro. apply rec_at_end; assumption.
    + intros r0 m0 H. discriminate.
    + intros u H. eapply Hlock_self; [exact Hw|exact H].
    + intros u o0 H. destruct (Nat.eq_dec u t) as [->|Hne]; [rewrite upd_same in H; discriminate|].
      rewrite upd_other in H by exact Hne.
      assert (Hu : wlock s = Some u) by (apply Hm; rewrite H; reflexivity). congruence.
  - (* publish *)
    destruct (thr s t) as [| | | |o pos| | | | | | | | |] eqn:Et; try discriminate.
    assert (Hrec : rec_at (data s) pos = Some (rec_of o)) by (specialize (Ht t); rewrite Et in Ht; exact Ht).
    assert (Hw : wlock s = Some t) by (apply Hm; rewrite Et; reflexivity).
    destruct o as [k v len|k|k len]; try discriminate; inversion E; subst; clear E.
    + eapply (safe_update s _ t _ HS); cbn [data index thr partial wlock].
      * same_data.
      * exact Hd.
      * reflexivity.
      * intros k0 loc H. unfold upd in H. destruct (Nat.eqb k0 k) eqn:Ek; [|apply Hi; exact H].
        apply Nat.eqb_eq in Ek. subst k0. inversion H; subst. exists (rec_of (OpPut k v len)). cbn. auto.
      * exact I.
      * exact Hp.
      * intros u H. eapply Hlock_self; [exact Hw|exact H].
      * intros u o0 H. eapply Hwr_other; [|exact H]. discriminate.
    + eapply (safe_update s _ t _ HS); cbn [data index thr partial wlock].
      * same_data.
      * exact Hd.
      * reflexivity.
      * intros k0 loc H. unfold upd in H. destruct (Nat.eqb k0 k); [discriminate|apply Hi; exact H].
      * exact I.
      * exact Hp.
      * intros u H. eapply Hlock_self; [exact Hw|exact H].
      * intros u o0 H. eapply Hwr_other; [|exact H]. discriminate.
  - (* unlock *)
    destruct (thr s t) eqn:Et; try discriminate. inversion E; subst; clear E.
    assert (Hw : wlock s = Some t) by (apply Hm; rewrite Et; reflexivity).
    eapply (safe_update s _ t _ HS); cbn [data index thr partial wlock].
    + same_data.
    + exact Hd.
    + reflexivity.
    + exact Hi.
    + exact I.
    + exact Hp.
    + intros u H. destruct (Nat.eq_dec u t) as [->|Hne]; [rewrite upd_same in H; discriminate|].
      rewrite upd_other in H by exact Hne. specialize (Hm u H). congruence.
    + intros u o0 H. eapply Hwr_other; [|exact H]. discriminate.
  - (* checkout *)
    destruct (thr s t) eqn:Et; try discriminate. destruct (pool s); try discriminate. inversion E; subst; clear E.
    eapply (safe_update s _ t _ HS); cbn [data index thr partial wlock].
    + same_data.
    + exact Hd.
    + reflexivity.
    + exact Hi.
    + exact I.
    + exact Hp.
    + intros u H. eapply Hlock_other; [|exact H]. reflexivity.
    + intros u o0 H. eapply Hwr_other; [|exact H]. discriminate.
  - (* lookup *)
    destruct (thr s t) eqn:Et; try discriminate. inversion E; subst; clear E. unfold set_thr.
    eapply (safe_update s _ t _ HS); cbn [data index thr partial wlock].
    + same_data.
    + exact Hd.
    + reflexivity.
    + exact Hi.
    + cbn [thread_ok]. destruct (index s k) as [loc|] eqn:Ei; [apply Hi; exact Ei|exact I].
    + exact Hp.
    + intros u H. eapply Hlock_other; [|exact H]. reflexivity.
    + intros u o0 H. eapply Hwr_other; [|exact H]. discriminate.
  - (* remap: with the repaired rule the record fits the mapping afterwards *)
    destruct (thr s t) as [| | | | | | | | |k ml loc r| | | |] eqn:Et; try discriminate.
    destruct loc as [[pos len]|]; inversion E; subst; clear E; unfold set_thr.
    + assert (Hg : good_loc s k (pos, len)) by (specialize (Ht t); rewrite Et in Ht; exact Ht).
      eapply (safe_update s _ t _ HS); cbn [data index thr partial wlock].
      * same_data.
      * exact Hd.
      * reflexivity.
      * exact Hi.
      * cbn [thread_ok fst snd]. split; [exact Hg|].
        destruct Hg as (rc & H1 & H2 & H3). cbn [fst snd] in *. apply rec_at_bound in H1. rewrite H2 in H1.
        unfold rule_fixed. destruct (Nat.ltb ml (pos + len)) eqn:El; [unfold visible; destruct (partial s) as [[? ?]|]; lia|apply Nat.ltb_ge in El; lia].
      * exact Hp.
      * intros u H. eapply Hlock_other; [|exact H]. reflexivity.
      * intros u o0 H. eapply Hwr_other; [|exact H]. discriminate.
    + eapply (safe_update s _ t _ HS); cbn [data index thr partial wlock].
      * same_data.
      * exact Hd.
      * reflexivity.
      * exact Hi.
      * exact I.
      * exact Hp.
      * intros u H. eapply Hlock_other; [|exact H]. reflexivity.
      * intros u o0 H. eapply Hwr_other; [|exact H]. discriminate.
  - (* slice: never out of range *)
    destruct (thr s t) as [| | | | | | | | | |k ml loc r| | |] eqn:Et; try discriminate. destruct loc as [pos len].
    assert (Hfit : pos + len <= ml) by (specialize (Ht t); rewrite Et in Ht; cbn in Ht; tauto).
    replace (Nat.leb (pos + len) ml) with true in E by (symmetry; apply Nat.leb_le; exact Hfit).
    inversion E; subst; clear E; unfold set_thr.
    eapply (safe_update s _ t _ HS); cbn [data index thr partial wlock].
    + same_data.
    + exact Hd.
    + reflexivity.
    + exact Hi.
    + exact I.
    + exact Hp.
    + intros u H. eapply Hlock_other; [|exact H]. reflexivity.
    + intros u o0 H. eapply Hwr_other; [|exact H]. discriminate.
  - (* checkin *)
    destruct (thr s t) eqn:Et; try discriminate. inversion E; subst; clear E.
    eapply (safe_update s _ t _ HS); cbn [data index thr partial wlock].
    + same_data.
    + exact Hd.
    + reflexivity.
    + exact Hi.
    + exact I.
    + exact Hp.
    + intros u H. eapply Hlock_other; [|exact H]. reflexivity.
    + intros u o0 H. eapply Hwr_other; [|exact H]. discriminate.
  - (* return *)
    destruct (thr s t) eqn:Et; try discriminate; inversion E; subst; clear E; unfold set_thr.
    all: eapply (safe_update s _ t _ HS); cbn [data index thr partial wlock];
      [same_data|exact Hd|reflexivity|exact Hi|exact I|exact Hp
      |intros u H; eapply Hlock_other; [|exact H]; reflexivity|intros u o0 H; eapply Hwr_other; [|exact H]; discriminate].
Qed.

Lemma init_safe cap : safe (linit cap).
Proof.
  unfold safe, linit. cbn [data index thr partial wlock].
  refine (conj _ (conj _ (conj _ (conj _ (conj _ _))))).
  - intros x [].
  - intros k loc H. discriminate.
  - intros t. exact I.
  - intros r m H. discriminate.
  - intros t H. discriminate.
  - intros t o H. discriminate.
Qed.

Theorem run_safe : forall es s s', safe s -> run s es = Some s' -> safe s'.
Proof.
  induction es as [|e es IH]; intros s s' H E; cbn [lrun] in E; [inversion E; subst; exact H|].
  destruct (step s e) as [s1|] eqn:E1; [|discriminate]. eapply IH; [eapply step_safe; eassumption|exact E].
Qed.

(* C04: no schedule, and no way of trickling a record's bytes into the file, makes a get panic *)
Theorem no_panic cap es s t : run (linit cap) es = Some s -> thr s t <> PPanicked.
Proof.
  intros E. destruct (run_safe es _ _ (init_safe cap) E) as (_ & _ & Ht & _). specialize (Ht t).
  intros H. rewrite H in Ht. exact Ht.
Qed.
End Safe.

(* the pinned rule (map again only when pos >= mapped length) is refuted by the schedule of D3:
   a reader maps the file while the record of another thread is partly written (its first 28 bytes are
   in the file), and later reads that record through the stale mapping *)
Definition d3_schedule : list lev :=
  [EInvoke 0 (OpPut 1 10 30); ELock 0; EBegin 0; EGrow 0 30; EFinish 0; EPublish 0; EUnlock 0; EReturn 0;
   EInvoke 0 (OpPut 2 20 120); ELock 0; EBegin 0; EGrow 0 28;
   EInvoke 1 (OpGet 1); ECheckout 1; ELookup 1; ERemap 1; ESlice 1; ECheckin 1; EReturn 1;
   EGrow 0 92; EFinish 0; EPublish 0; EUnlock 0; EReturn 0;
   EInvoke 1 (OpGet 2); ECheckout 1; ELookup 1; ERemap 1; ESlice 1].

Example pinned_rule_panics :
  exists s, lrun rule_pinned (linit 1) d3_schedule = Some s /\ thr s 1 = PPanicked /\ pool s = [].
Proof. eexists. split; [vm_compute; reflexivity|]. split; reflexivity. Qed.

Example fixed_rule_same_schedule :
  exists s, lrun rule_fixed (linit 1) d3_schedule = Some s /\ thr s 1 = PGRead 150 (Some 20).
Proof. eexists. split; [vm_compute; reflexivity|]. reflexivity. Qed.
