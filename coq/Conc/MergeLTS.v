(* Conc/MergeLTS.v — gets against a running merge pass (the second interleaving model of C04).
   The merge holds the writer mutex for its whole duration (no put or delete runs beside it), so what
   remains concurrent is: readers (KeyDir lookup under a DashMap guard that is kept until the value has
   been read) against the merge loop (for each index entry in a selected file, under the write lock of
   that entry: copy the record to the merge output and re-point the entry), followed by the unlinks.
   Proved: no reader ever reads from a file that has been unlinked, every get returns the value the
   abstract map held at its lookup, the merge never changes the abstract map — for every schedule.
   The rule that matters is that the guard is kept across the read: with [guarded := false] (the guard
   dropped after the lookup, as in seeded change C04-A) an explicit schedule reads an unlinked file. *)
From Coq Require Import List Arith Lia Bool.
Import ListNotations.

Definition key := nat.
Definition val := nat.
Definition fid := nat.
Record mrec := mkMRec { mk : key; mv : val }.

Inductive rpc :=
| RIdle
| RLooked (k : key) (loc : option (fid * nat)) (commit : option val)   (* holds the guard of k; [commit] = abstract value at the lookup *)
| RDone (k : key) (v : option val) (commit : option val)
| RFailed.                                                              (* tried to read from a file that is gone *)

Inductive mphase :=
| MIdle
| MCopying (todo : list key) (sel : list fid) (mid : fid)
| MUnlinking (sel : list fid)
| MFinished.

Record mst := mkMS {
  files : fid -> option (list mrec);
  idx : key -> option (fid * nat);
  readers : nat -> rpc;
  mph : mphase
}.

Inductive mev :=
| RLookup (t : nat) (k : key) | RRead (t : nat) | RReturn (t : nat)
| MStart (sel : list fid) (todo : list key) (mid : fid) | MCopy | MCopyEnd | MUnlink | MEnd.

Definition upd {A} (f : nat -> A) (t : nat) (x : A) : nat -> A := fun u => if Nat.eqb u t then x else f u.

(* the abstract map: what the index says *)
Definition value_at (s : mst) (loc : fid * nat) : option val :=
  match files s (fst loc) with Some recs => option_map mv (nth_error recs (snd loc)) | None => None end.
Definition gmap (s : mst) (k : key) : option val := match idx s k with Some loc => value_at s loc | None => None end.

Definition holds_guard (k : key) (p : rpc) : bool := match p with RLooked k' _ _ => Nat.eqb k k' | _ => false end.

Section Rule.
Variable T : nat.              (* reader threads are 0 .. T-1 *)
Variable guarded : bool.       (* the reader keeps its guard until it has read the value *)

Definition guard_free (s : mst) (k : key) : bool :=
  negb guarded || forallb (fun t => negb (holds_guard k (readers s t))) (seq 0 T).

Definition mstep (s : mst) (e : mev) : option mst :=
  match e with
  | RLookup t k =>
    if Nat.ltb t T then
      match readers s t with
      | RIdle => Some (mkMS (files s) (idx s) (upd (readers s) t (RLooked k (idx s k) (gmap s k))) (mph s))
      | _ => None
      end
    else None
  | RRead t =>
    match readers s t with
    | RLooked k None c => Some (mkMS (files s) (idx s) (upd (readers s) t (RDone k None c)) (mph s))
    | RLooked k (Some loc) c =>
      match files s (fst loc) with
      | Some recs => Some (mkMS (files s) (idx s) (upd (readers s) t (RDone k (option_map mv (nth_error recs (snd loc))) c)) (mph s))
      | None => Some (mkMS (files s) (idx s) (upd (readers s) t RFailed) (mph s))
      end
    | _ => None
    end
  | RReturn t => match readers s t with RDone _ _ _ => Some (mkMS (files s) (idx s) (upd (readers s) t RIdle) (mph s)) | _ => None end
  | MStart sel todo mid =>
    match mph s, files s mid with
    | MIdle, None =>
      if negb (existsb (Nat.eqb mid) sel) then Some (mkMS (upd (files s) mid (Some [])) (idx s) (readers s) (MCopying todo sel mid)) else None
    | _, _ => None
    end
  | MCopy =>
    match mph s with
    | MCopying (k :: todo) sel mid =>
      match idx s k with
      | Some (f, p) =>
        if existsb (Nat.eqb f) sel then
          if guard_free s k then
            match files s f, files s mid with
            | Some recs, Some out =>
              match nth_error recs p with
              | Some r => Some (mkMS (upd (files s) mid (Some (out ++ [r]))) (upd (idx s) k (Some (mid, length out))) (readers s) (MCopying todo sel mid))
              | None => None
              end
            | _, _ => None
            end
          else None                                                 (* blocked on the entry's lock *)
        else Some (mkMS (files s) (idx s) (readers s) (MCopying todo sel mid))
      | None => Some (mkMS (files s) (idx s) (readers s) (MCopying todo sel mid))
      end
    | _ => None
    end
  | MCopyEnd => match mph s with MCopying [] sel mid => Some (mkMS (files s) (idx s) (readers s) (MUnlinking sel)) | _ => None end
  | MUnlink =>
    match mph s with
    | MUnlinking (f :: sel) => Some (mkMS (upd (files s) f None) (idx s) (readers s) (MUnlinking sel))
    | _ => None
    end
  | MEnd => match mph s with MUnlinking [] => Some (mkMS (files s) (idx s) (readers s) MFinished) | _ => None end
  end.

Fixpoint mrun (s : mst) (es : list mev) : option mst :=
  match es with [] => Some s | e :: es' => match mstep s e with Some s' => mrun s' es' | None => None end end.
End Rule.

(* a merge may start when its work list covers every index entry that lies in a selected file *)
Definition covers (s : mst) (sel : list fid) (todo : list key) : Prop :=
  forall k f p, idx s k = Some (f, p) -> existsb (Nat.eqb f) sel = true -> In k todo.
