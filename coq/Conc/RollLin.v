(* Conc/RollLin.v — every schedule of the rollover model (Conc/RollLTS.v) is linearizable: its history of
   invocations and returns is accepted by the commit-point monitor of Conc/Lin.v (puts commit at the
   publication of the index entry, gets at the index lookup), so the commit order is a sequential execution of
   the map that reproduces every result and respects real time.  A get is invoked at its lookup here;
   Conc/Widen.v moves invocations earlier and returns later without losing acceptance. *)
From Coq Require Import List Arith Lia Bool.
Import ListNotations.
From BC Require Import Conc.Lin Conc.RollLTS Conc.RollSafe.

Inductive ropn := RPut (k : key) (v : val) | RGet (k : key) | RDel (k : key).
Inductive rres := RRUnit | RRVal (v : option val) | RRBool (b : bool).
Definition gst := key -> option val.

Definition rspec (g : gst) (o : ropn) : gst * rres :=
  match o with
  | RPut k v => (upd g k (Some v), RRUnit)
  | RGet k => (g, RRVal (g k))
  | RDel k => (upd g k None, RRBool (match g k with Some _ => true | None => false end))
  end.
Definition ov_eqb (a b : option val) : bool :=
  match a, b with Some x, Some y => Nat.eqb x y | None, None => true | _, _ => false end.
Definition rres_eqb (a b : rres) : bool :=
  match a, b with RRUnit, RRUnit => true | RRVal x, RRVal y => ov_eqb x y | RRBool x, RRBool y => Bool.eqb x y | _, _ => false end.
Lemma rres_eqb_refl a : rres_eqb a a = true.
Proof. destruct a as [|[x|]|b]; cbn; auto using Nat.eqb_refl, Bool.eqb_reflx. Qed.

Notation mon := (mon gst ropn rres).
Notation mstep := (mstep gst ropn rres rspec rres_eqb).
Notation mrun := (mrun gst ropn rres rspec rres_eqb).
Notation minit := (minit gst ropn rres).

(* the writer is thread 0, reader t is thread t+1 *)
Definition project1 (s : rst) (e : rev) : list (iev ropn rres) :=
  match e with
  | WAppend k v => [IInv _ _ 0 (RPut k v)]
  | WAppendDel k => [IInv _ _ 0 (RDel k)]
  | WRoll => []
  | WPublish => [ICommit _ _ 0]
  | WReturn => match wstate s with
               | WDone None => [IRet _ _ 0 RRUnit]
               | WDone (Some b) => [IRet _ _ 0 (RRBool b)]
               | _ => []
               end
  | GLookup t k => [IInv _ _ (S t) (RGet k); ICommit _ _ (S t)]
  | GRead _ => []
  | GReturn t => match rreaders s t with GDone _ v _ => [IRet _ _ (S t) (RRVal v)] | _ => [] end
  end.
Fixpoint project (s : rst) (es : list rev) : list (iev ropn rres) :=
  match es with
  | [] => []
  | e :: es' => project1 s e ++ match rstep true s e with Some s' => project s' es' | None => [] end
  end.

Definition sim (s : rst) (m : mon) : Prop :=
  (forall k, ghost _ _ _ m k = rgmap s k) /\
  match wstate s with
  | WIdle => status _ _ _ m 0 = Idle _ _
  | WAppended k loc => exists id v, status _ _ _ m 0 = Pending _ _ id (RPut k v) /\ rvalue_at s loc = Some v
  | WAppendedDel k => exists id, status _ _ _ m 0 = Pending _ _ id (RDel k)
  | WDone d => exists id o, status _ _ _ m 0 = Committed _ _ id o (match d with None => RRUnit | Some b => RRBool b end)
  end /\
  forall t, match rreaders s t with
            | GIdle => status _ _ _ m (S t) = Idle _ _
            | GLooked k _ c => exists id, status _ _ _ m (S t) = Committed _ _ id (RGet k) (RRVal c)
            | GDone k v _ => exists id, status _ _ _ m (S t) = Committed _ _ id (RGet k) (RRVal v)
            | GFailed => False
            end.

Lemma mrun_app es1 : forall m es2, mrun m (es1 ++ es2) = match mrun m es1 with Some m' => mrun m' es2 | None => None end.
Proof. induction es1 as [|e es1 IH]; intros m es2; cbn [app Lin.mrun]; [reflexivity|]. destruct (mstep m e); [apply IH|reflexivity]. Qed.

Lemma set_same (f : nat -> tstatus ropn rres) t x : set_status _ _ f t x t = x.
Proof. unfold set_status. now rewrite Nat.eqb_refl. Qed.

(* values at index positions and at the writer's position do not change when files grow *)
Lemma rvalue_ext s s' loc v : ext (rfiles s) (rfiles s') -> (exists w, has (rfiles s) (fst loc) (snd loc) w) -> rvalue_at s loc = v -> rvalue_at s' loc = v.
Proof.
  intros He (w & Hh) Hv. destruct loc as [f p]. cbn [fst snd] in Hh.
  assert (Hvw : v = w) by (rewrite <- Hv; exact (rvalue_has s f p w Hh)).
  clear Hv. subst v. apply rvalue_has. eapply has_ext; eassumption.
Qed.

Lemma rgmap_ext s s' : RI s -> ext (rfiles s) (rfiles s') -> ridx s' = ridx s -> forall k, rgmap s' k = rgmap s k.
Proof.
  intros I He Hi k. unfold rgmap. rewrite Hi. destruct (ridx s k) as [[f p]|] eqn:E; [|reflexivity].
  apply (rvalue_ext s s' (f, p)); [exact He| |reflexivity]. destruct (ri_idx _ I _ _ _ E) as (v & Hh). eauto.
Qed.

Theorem step_sim s e s' m : RI s -> sim s m -> rstep true s e = Some s' ->
  exists m', mrun m (project1 s e) = Some m' /\ sim s' m'.
Proof.
  intros I (Hg & Hw & Hrd) Hs. pose proof (step_RI s e s' I Hs) as I'.
  destruct e as [k v|k| | | |t k|t|t]; cbn [rstep] in Hs; cbn [project1].
  - (* append: the put is invoked *)
    destruct (wstate s) eqn:Ew; try discriminate. destruct (rfiles s (ractive s)) as [recs|] eqn:Ea; [|discriminate]. injection Hs as <-.
    cbn [Lin.mrun Lin.mstep]. rewrite Hw. eexists. split; [reflexivity|].
    pose proof (ext_append _ _ _ (mkRRec k (Some v)) Ea) as He.
    split; [|split].
    + cbn [ghost]. intros k0. rewrite Hg. symmetry. apply (rgmap_ext s); [exact I|exact He|reflexivity].
    + cbn [wstate status]. rewrite set_same. exists (clock _ _ _ m), v. split; [reflexivity|].
      unfold rvalue_at. cbn [fst snd rfiles]. rewrite upd_same. rewrite nth_error_app2 by lia. rewrite Nat.sub_diag. reflexivity.
    + intros t. cbn [rreaders status]. unfold set_status. cbn [Nat.eqb]. exact (Hrd t).
  - (* append a tombstone: the delete is invoked *)
    destruct (wstate s) eqn:Ew; try discriminate. destruct (rfiles s (ractive s)) as [recs|] eqn:Ea; [|discriminate]. injection Hs as <-.
    cbn [Lin.mrun Lin.mstep]. rewrite Hw. eexists. split; [reflexivity|].
    pose proof (ext_append _ _ _ (mkRRec k None) Ea) as He.
    split; [|split].
    + cbn [ghost]. intros k0. rewrite Hg. symmetry. apply (rgmap_ext s); [exact I|exact He|reflexivity].
    + cbn [wstate status]. rewrite set_same. eauto.
    + intros t. cbn [rreaders status]. unfold set_status. cbn [Nat.eqb]. exact (Hrd t).
  - (* roll *)
    destruct (wstate s) as [|k loc|k|d] eqn:Ew; try discriminate.
    + destruct (rfiles s (S (ractive s))) eqn:En; [discriminate|]. injection Hs as <-.
      cbn [Lin.mrun]. exists m. split; [reflexivity|]. pose proof (ext_create _ _ En) as He.
      split; [|split].
      * intros k0. rewrite Hg. symmetry. apply (rgmap_ext s); [exact I|exact He|reflexivity].
      * cbn [wstate]. destruct Hw as (id & v & Hst & Hv). exists id, v. split; [exact Hst|].
        apply (rvalue_ext s _ loc); [exact He| |exact Hv]. destruct loc as [f p]. destruct (ri_wr _ I _ _ _ Ew) as (v0 & Hh). eauto.
      * exact Hrd.
    + destruct (rfiles s (S (ractive s))) eqn:En; [discriminate|]. injection Hs as <-.
      cbn [Lin.mrun]. exists m. split; [reflexivity|]. pose proof (ext_create _ _ En) as He.
      split; [|split].
      * intros k0. rewrite Hg. symmetry. apply (rgmap_ext s); [exact I|exact He|reflexivity].
      * cbn [wstate]. exact Hw.
      * exact Hrd.
  - (* publish: the put or the delete commits *)
    destruct (wstate s) as [|k [f p]|k|d] eqn:Ew; try discriminate.
    + injection Hs as <-.
      destruct Hw as (id & v & Hst & Hv). cbn [Lin.mrun Lin.mstep]. rewrite Hst. cbn [rspec]. eexists. split; [reflexivity|].
      split; [|split].
      * cbn [ghost]. intros k0. unfold rgmap. cbn [ridx]. unfold upd at 1 2. destruct (Nat.eqb k0 k) eqn:E.
        -- symmetry. exact Hv.
        -- apply Hg.
      * cbn [wstate status]. rewrite set_same. eauto.
      * intros t. cbn [rreaders status]. unfold set_status. cbn [Nat.eqb]. exact (Hrd t).
    + injection Hs as <-.
      destruct Hw as (id & Hst). cbn [Lin.mrun Lin.mstep]. rewrite Hst. cbn [rspec]. eexists. split; [reflexivity|].
      split; [|split].
      * cbn [ghost]. intros k0. unfold rgmap. cbn [ridx]. unfold upd at 1 2. destruct (Nat.eqb k0 k) eqn:E; [reflexivity|apply Hg].
      * cbn [wstate status]. rewrite set_same. exists id, (RDel k). f_equal. f_equal. rewrite Hg. unfold rgmap.
        destruct (ridx s k) as [[f p]|] eqn:Ei; [|reflexivity].
        destruct (ri_idx _ I _ _ _ Ei) as (v & Hh). pose proof (rvalue_has s f p _ Hh) as Hv.
        assert (Hx : forall x : option val, x = Some v -> match x with Some _ => true | None => false end = true) by (intros x ->; reflexivity).
        apply Hx. exact Hv.
      * intros t. cbn [rreaders status]. unfold set_status. cbn [Nat.eqb]. exact (Hrd t).
  - (* the put or the delete returns *)
    destruct (wstate s) as [| | |d] eqn:Ew; try discriminate. injection Hs as <-.
    destruct Hw as (id & o & Hst). destruct d as [b|]; cbn [Lin.mrun Lin.mstep]; rewrite Hst; rewrite rres_eqb_refl; (eexists; split; [reflexivity|]);
      (split; [exact Hg|]; split; [cbn [wstate status]; now rewrite set_same|]; intros t; cbn [rreaders status]; unfold set_status; cbn [Nat.eqb]; exact (Hrd t)).
  - (* lookup: the get is invoked and commits *)
    destruct (rreaders s t) eqn:Er; try discriminate. injection Hs as <-.
    pose proof (Hrd t) as Ht. rewrite Er in Ht.
    cbn [Lin.mrun Lin.mstep]. rewrite Ht. cbn [status]. rewrite set_same. cbn [rspec ghost]. eexists. split; [reflexivity|].
    split; [|split].
    + exact Hg.
    + cbn [wstate status]. unfold set_status. cbn [Nat.eqb]. exact Hw.
    + intros t0. cbn [rreaders status]. unfold upd, set_status. cbn [Nat.eqb]. destruct (Nat.eqb t0 t) eqn:E.
      * rewrite Hg. eauto.
      * specialize (Hrd t0). exact Hrd.
  - (* read: no event; the value read is the committed one *)
    cbn [Lin.mrun]. exists m. split; [reflexivity|].
    destruct (rreaders s t) as [|k [[f p]|] c| |] eqn:Er; try discriminate.
    + destruct (rfiles s f) as [recs|] eqn:Ef.
      * match type of Hs with (if ?b then _ else _) = _ => destruct b end; injection Hs as <-.
        -- split; [exact Hg|]. split; [exact Hw|]. intros t0. cbn [rreaders]. unfold upd. destruct (Nat.eqb t0 t) eqn:E.
           ++ apply Nat.eqb_eq in E. subst t0. pose proof (Hrd t) as Ht. rewrite Er in Ht. destruct Ht as (id & Ht).
              assert (Hd : match nth_error recs p with Some r => rv r | None => None end = c).
              { apply (ri_done _ I' t k). cbn [rreaders]. now rewrite upd_same. }
              rewrite Hd. eauto.
           ++ exact (Hrd t0).
        -- exfalso. apply (ri_nofail _ I' t). cbn [rreaders]. now rewrite upd_same.
      * injection Hs as <-. exfalso. apply (ri_nofail _ I' t). cbn [rreaders]. now rewrite upd_same.
    + injection Hs as <-. split; [exact Hg|]. split; [exact Hw|]. intros t0. cbn [rreaders]. unfold upd. destruct (Nat.eqb t0 t) eqn:E.
      * apply Nat.eqb_eq in E. subst t0. pose proof (Hrd t) as Ht. rewrite Er in Ht. destruct Ht as (id & Ht).
        pose proof (ri_miss _ I _ _ _ Er) as ->. eauto.
      * exact (Hrd t0).
  - (* the get returns *)
    destruct (rreaders s t) as [| |k v c|] eqn:Er; try discriminate. injection Hs as <-.
    pose proof (Hrd t) as Ht. rewrite Er in Ht. destruct Ht as (id & Ht).
    cbn [Lin.mrun Lin.mstep]. rewrite Ht. rewrite rres_eqb_refl. eexists. split; [reflexivity|].
    split; [|split].
    + exact Hg.
    + cbn [wstate status]. unfold set_status. cbn [Nat.eqb]. exact Hw.
    + intros t0. cbn [rreaders status]. unfold upd, set_status. cbn [Nat.eqb]. destruct (Nat.eqb t0 t) eqn:E; [reflexivity|exact (Hrd t0)].
Qed.

Lemma run_sim : forall es s s' m, RI s -> sim s m -> rrun true s es = Some s' ->
  exists m', mrun m (project s es) = Some m' /\ sim s' m'.
Proof.
  induction es as [|e es IH]; intros s s' m I Hsim H; cbn [rrun project] in *.
  - injection H as <-. exists m. split; [reflexivity|exact Hsim].
  - destruct (rstep true s e) as [s1|] eqn:Es; [|discriminate].
    destruct (step_sim s e s1 m I Hsim Es) as (m1 & Hm1 & Hsim1).
    destruct (IH s1 s' m1 (step_RI s e s1 I Es) Hsim1 H) as (m' & Hm' & Hsim').
    exists m'. split; [|exact Hsim']. rewrite mrun_app, Hm1. exact Hm'.
Qed.

Lemma sim_init : sim rinit (minit (fun _ => None)).
Proof. split; [reflexivity|]. split; [reflexivity|]. intros t. reflexivity. Qed.

(* Every schedule of puts, deletes (with replacement of the active file between append and publication) and gets is
   linearizable: the monitor accepts its history; the commit order replays, from the empty map, to a map that
   agrees with what the index denotes, reproducing every result; it contains every returned operation and
   respects real time. *)
Theorem roll_schedules_linearizable es s :
  rrun true rinit es = Some s ->
  exists m, mrun (minit (fun _ => None)) (project rinit es) = Some m /\
    (forall k, ghost _ _ _ m k = rgmap s k) /\
    replay _ _ _ rspec rres_eqb (fun _ => None) (lin _ _ _ m) = (ghost _ _ _ m, true) /\
    (forall id, In id (returned _ _ _ m) -> In id (ids_of _ _ (lin _ _ _ m))) /\
    (forall id rs a l1 l2, In (id, rs) (before _ _ _ m) -> In a rs -> ids_of _ _ (lin _ _ _ m) = l1 ++ id :: l2 -> In a l1).
Proof.
  intros E. destruct (run_sim es _ _ _ ri_init sim_init E) as (m & Hm & (Hg & _ & _)).
  exists m. split; [exact Hm|]. split; [exact Hg|].
  exact (commit_order_linearizes _ _ _ rspec rres_eqb rres_eqb_refl _ _ _ Hm).
Qed.
