(* Conc/RenderLTS.v — rendering for the correspondence runs of C04 (trusted glue): the results the
   interleaving model computes for a schedule, one line per returned operation, and the threads that
   panicked or the first event the model does not allow. *)
From BC Require Import Base.Bytes Conc.Lin Conc.StoreLTS Conc.StoreLin.
From BC Require Conc.RollLTS.
From Coq Require Import String List.
Export ListNotations.
Open Scope string_scope.

Definition show_res (r : result) : string :=
  match r with
  | RUnit => "ok"
  | RVal None => "none"
  | RVal (Some v) => "some:" ++ show_N (N.of_nat v)
  | RBool true => "true"
  | RBool false => "false"
  end.

(* like [project]/[lrun] for either rule, but rendering as it goes *)
Fixpoint report (rule : nat -> nat -> nat -> bool) (s : lst) (es : list lev) (i : nat) : list string :=
  match es with
  | [] => ["end"]
  | e :: es' =>
    match lstep rule s e with
    | None => ["stuck:" ++ show_N (N.of_nat i)]
    | Some s' =>
      let here := match e with
                  | EReturn t => match thr s t with
                                 | PWUnlocked r => ["R " ++ show_N (N.of_nat t) ++ " " ++ show_res r]
                                 | PGDone r => ["R " ++ show_N (N.of_nat t) ++ " " ++ show_res (RVal r)]
                                 | _ => []
                                 end
                  | ESlice t => match thr s' t with PPanicked => ["R " ++ show_N (N.of_nat t) ++ " panic"] | _ => [] end
                  | _ => []
                  end in
      (here ++ report rule s' es' (S i))%list
    end
  end.

Definition render_schedule (pinned : bool) (cap : nat) (es : list lev) : string :=
  join nl (report (if pinned then rule_pinned else rule_fixed) (linit cap) es 0).
Definition render_schedules (cases : list (bool * nat * list lev)) : string :=
  join (nl ++ "--" ++ nl) (List.map (fun '(p, c, es) => render_schedule p c es) cases).

(* ---- the rollover model (Conc/RollLTS.v): the writer is rendered as thread 99 *)
Definition show_ov (v : option nat) : string := match v with None => "none" | Some v => "some:" ++ show_N (N.of_nat v) end.

Fixpoint report_roll (s : RollLTS.rst) (es : list RollLTS.rev) (i : nat) : list string :=
  match es with
  | [] => ["end"]
  | e :: es' =>
    match RollLTS.rstep true s e with
    | None => ["stuck:" ++ show_N (N.of_nat i)]
    | Some s' =>
      let here := match e with
                  | RollLTS.WReturn => match RollLTS.wstate s with
                                       | RollLTS.WDone (Some true) => ["R 99 true"]
                                       | RollLTS.WDone (Some false) => ["R 99 false"]
                                       | _ => ["R 99 ok"]
                                       end
                  | RollLTS.GReturn t => match RollLTS.rreaders s t with
                                         | RollLTS.GDone _ v _ => ["R " ++ show_N (N.of_nat t) ++ " " ++ show_ov v]
                                         | _ => []
                                         end
                  | RollLTS.GRead t => match RollLTS.rreaders s' t with RollLTS.GFailed => ["R " ++ show_N (N.of_nat t) ++ " panic"] | _ => [] end
                  | _ => []
                  end in
      (here ++ report_roll s' es' (S i))%list
    end
  end.

Definition render_rolls (cases : list (list RollLTS.rev)) : string :=
  join (nl ++ "--" ++ nl) (List.map (fun es => join nl (report_roll RollLTS.rinit es 0)) cases).
