(* Conc/StoreLive.v — readers are conserved and the model never deadlocks (repaired remap rule). *)
From Coq Require Import List Arith Lia Bool.
Import ListNotations.
From BC Require Import Conc.StoreLTS Conc.StoreSafe.

Definition holding (p : pc) : nat :=
  match p with PGHave _ _ | PGLooked _ _ _ _ | PGRemapped _ _ _ _ | PGRead _ _ => 1 | _ => 0 end.

Fixpoint hsum (f : nat -> pc) (ts : list nat) : nat :=
  match ts with [] => 0 | t :: ts' => holding (f t) + hsum f ts' end.

Lemma hsum_upd_notin f t p ts : ~ In t ts -> hsum (upd f t p) ts = hsum f ts.
Proof.
  induction ts as [|u ts IH]; intros H; cbn [hsum]; [reflexivity|].
  rewrite IH by (intros H'; apply H; right; exact H').
  rewrite upd_other; [reflexivity|]. intros ->. apply H. left. reflexivity.
Qed.

Lemma hsum_upd_in f t p ts : NoDup ts -> In t ts -> hsum (upd f t p) ts + holding (f t) = hsum f ts + holding p.
Proof.
  induction ts as [|u ts IH]; intros Hn Hin; [destruct Hin|]. inversion Hn as [|? ? Hnot Hn']; subst. cbn [hsum].
  destruct (Nat.eq_dec u t) as [->|Hne].
  - rewrite upd_same, hsum_upd_notin by exact Hnot. lia.
  - destruct Hin as [->|Hin]; [contradiction|]. rewrite (upd_other f t u p) by exact Hne. specialize (IH Hn' Hin). lia.
Qed.

Lemma hsum_pos f ts : 0 < hsum f ts -> exists u, In u ts /\ holding (f u) = 1.
Proof.
  induction ts as [|u ts IH]; cbn [hsum]; intros H; [lia|].
  destruct (holding (f u)) as [|[|n]] eqn:E.
  - destruct (IH H) as (w & Hw & Hh). exists w. split; [right; exact Hw|exact Hh].
  - exists u. split; [left; reflexivity|exact E].
  - exfalso. destruct (f u); cbn in E; discriminate.
Qed.

(* the operation a writer thread carries *)
Definition wop (p : pc) : option opn :=
  match p with PWWait o | PWLocked o | PWWriting o | PWWritten o _ => Some o | _ => None end.

Section Live.
Variable cap : nat.
Variable ts : list nat.
Hypothesis ts_nodup : NoDup ts.

Notation step := (lstep rule_fixed).
Notation run := (lrun rule_fixed).

Definition live (s : lst) : Prop :=
  (forall t, ~ In t ts -> thr s t = PIdle) /\
  length (pool s) + hsum (thr s) ts = cap /\
  (forall r m, partial s = Some (r, m) -> m <= rlen r /\ exists t o, thr s t = PWWriting o) /\
  (forall t, wlock s = Some t -> holds_lock (thr s t) = true) /\
  (forall t o, wop (thr s t) = Some o -> 0 < rlen (rec_of o) /\ forall k, o <> OpGet k).

(* a step of thread [t] that leaves the partial record and the mutex alone *)
Lemma live_simple s s' t p' :
  live s -> In t ts ->
  thr s' = upd (thr s) t p' -> partial s' = partial s -> wlock s' = wlock s ->
  length (pool s') + holding p' = length (pool s) + holding (thr s t) ->
  (forall o, thr s t <> PWWriting o) ->
  (holds_lock (thr s t) = true -> holds_lock p' = true) ->
  (forall o, wop p' = Some o -> 0 < rlen (rec_of o) /\ forall k, o <> OpGet k) ->
  live s'.
Proof.
  intros (L1 & L2 & L3 & L4 & L5) Hin Et Ep Ew Hpool Hnw Hhl Hop.
  unfold live. rewrite Et, Ep, Ew. refine (conj _ (conj _ (conj _ (conj _ _)))).
  - intros u Hu. rewrite upd_other; [auto|]. intros ->. contradiction.
  - pose proof (hsum_upd_in (thr s) t p' ts ts_nodup Hin). lia.
  - intros r m H. destruct (L3 r m H) as (Hle & w & o & Hw). split; [exact Hle|]. exists w, o.
    rewrite upd_other; [exact Hw|]. intros ->. exact (Hnw o Hw).
  - intros u H. specialize (L4 u H). destruct (Nat.eq_dec u t) as [->|Hne]; [rewrite upd_same; auto|rewrite upd_other by exact Hne; exact L4].
  - intros u o H. destruct (Nat.eq_dec u t) as [->|Hne]; [rewrite upd_same in H; auto|rewrite upd_other in H by exact Hne; eauto].
Qed.

Lemma wf_op_pos o : wf_op o = true -> (forall k, o <> OpGet k) -> 0 < rlen (rec_of o).
Proof. destruct o; cbn; intros H Hn; try (apply Nat.ltb_lt; exact H). exfalso. eapply Hn. reflexivity. Qed.

(* the seven obligations of [live_simple], in order: thr, partial, wlock, pool accounting, not the
   writing thread, lock ownership kept, carried operation well-formed *)
Ltac simple_case HL Hin Et tpool thl top :=
  eapply (live_simple _ _ _ _ HL Hin); cbn [thr partial wlock pool];
  [reflexivity|reflexivity|reflexivity|rewrite Et; tpool|rewrite Et; discriminate|rewrite Et; thl|top].

Lemma step_live s e s' : safe s -> live s -> In (ev_thread e) ts -> step s e = Some s' -> live s'.
Proof.
  intros HS HL Hin E. pose proof HL as (L1 & L2 & L3 & L4 & L5). pose proof HS as (Hd & Hi & Ht & Hp & Hm & Hk).
  destruct e as [t o|t|t|t n|t|t|t|t|t|t|t|t|t]; cbn [ev_thread] in Hin; unfold lstep in E.
  - (* invoke *)
    destruct (thr s t) eqn:Et; try discriminate. destruct (wf_op o) eqn:Ewf; [|discriminate]. inversion E; subst; clear E. unfold set_thr.
    simple_case HL Hin Et ltac:(destruct o; reflexivity) ltac:(discriminate)
      ltac:(intros o0 H; destruct o; cbn in H; inversion H; subst; (split; [apply wf_op_pos; [exact Ewf|]|]; intros; discriminate)).
  - (* lock *)
    destruct (thr s t) eqn:Et; try discriminate. destruct (wlock s) eqn:Ew; try discriminate. inversion E; subst; clear E.
    unfold live. cbn [thr partial wlock pool]. refine (conj _ (conj _ (conj _ (conj _ _)))).
    + intros u Hu. rewrite upd_other; [auto|]. intros ->. contradiction.
    + pose proof (hsum_upd_in (thr s) t (PWLocked o) ts ts_nodup Hin) as H. rewrite Et in H. cbn [holding] in H. lia.
    + intros r m H. destruct (L3 r m H) as (Hle & w & o' & Hw). split; [exact Hle|]. exists w, o'.
      rewrite upd_other; [exact Hw|]. intros ->. congruence.
    + intros u H. inversion H; subst. rewrite upd_same. reflexivity.
    + intros u o0 H. destruct (Nat.eq_dec u t) as [->|Hne]; [rewrite upd_same in H; cbn in H; inversion H; subst; apply (L5 t); rewrite Et; reflexivity|].
      rewrite upd_other in H by exact Hne. eauto.
  - (* begin *)
    destruct (thr s t) eqn:Et; try discriminate. destruct (partial s) eqn:Ep; try discriminate.
    destruct (Nat.ltb 0 (rlen (rec_of o))) eqn:El; [|discriminate]. inversion E; subst; clear E.
    unfold live. cbn [thr partial wlock pool]. refine (conj _ (conj _ (conj _ (conj _ _)))).
    + intros u Hu. rewrite upd_other; [auto|]. intros ->. contradiction.
    + pose proof (hsum_upd_in (thr s) t (PWWriting o) ts ts_nodup Hin) as H. rewrite Et in H. cbn [holding] in H. lia.
    + intros r m H. inversion H; subst. split; [lia|]. exists t, o. apply upd_same.
    + intros u H. specialize (L4 u H). destruct (Nat.eq_dec u t) as [->|Hne]; [rewrite upd_same; reflexivity|rewrite upd_other by exact Hne; exact L4].
    + intros u o0 H. destruct (Nat.eq_dec u t) as [->|Hne]; [rewrite upd_same in H; cbn in H; inversion H; subst; apply (L5 t); rewrite Et; reflexivity|].
      rewrite upd_other in H by exact Hne. eauto.
  - (* grow *)
    destruct (thr s t) eqn:Et; try discriminate. destruct (partial s) as [[r m]|] eqn:Ep; try discriminate.
    destruct (Nat.leb (m + n) (rlen r)) eqn:El; [|discriminate]. inversion E; subst; clear E. apply Nat.leb_le in El.
    unfold live. cbn [thr partial wlock pool]. refine (conj L1 (conj L2 (conj _ (conj L4 L5)))).
    intros r0 m0 H. inversion H; subst. split; [exact El|]. exists t, o. exact Et.
  - (* finish *)
    destruct (thr s t) eqn:Et; try discriminate. destruct (partial s) as [[r m]|] eqn:Ep; try discriminate.
    destruct (Nat.eqb m (rlen r)); [|discriminate]. inversion E; subst; clear E.
    unfold live. cbn [thr partial wlock pool]. refine (conj _ (conj _ (conj _ (conj _ _)))).
    + intros u Hu. rewrite upd_other; [auto|]. intros ->. contradiction.
    + pose proof (hsum_upd_in (thr s) t (PWWritten o (size (data s))) ts ts_nodup Hin) as H. rewrite Et in H. cbn [holding] in H. lia.
    + intros r0 m0 H. discriminate.
    + intros u H. specialize (L4 u H). destruct (Nat.eq_dec u t) as [->|Hne]; [rewrite upd_same; reflexivity|rewrite upd_other by exact Hne; exact L4].
    + intros u o0 H. destruct (Nat.eq_dec u t) as [->|Hne]; [rewrite upd_same in H; cbn in H; inversion H; subst; apply (L5 t); rewrite Et; reflexivity|].
      rewrite upd_other in H by exact Hne. eauto.
  - (* publish *)
    destruct (thr s t) as [| | | |o pos| | | | | | | | |] eqn:Et; try discriminate.
    destruct o as [k v len|k|k len]; try discriminate; inversion E; subst; clear E.
    + simple_case HL Hin Et ltac:(reflexivity) ltac:(reflexivity) ltac:(discriminate).
    + simple_case HL Hin Et ltac:(reflexivity) ltac:(reflexivity) ltac:(discriminate).
  - (* unlock *)
    destruct (thr s t) eqn:Et; try discriminate. inversion E; subst; clear E.
    unfold live. cbn [thr partial wlock pool]. refine (conj _ (conj _ (conj _ (conj _ _)))).
    + intros u Hu. rewrite upd_other; [auto|]. intros ->. contradiction.
    + pose proof (hsum_upd_in (thr s) t (PWUnlocked r) ts ts_nodup Hin) as H. rewrite Et in H. cbn [holding] in H. lia.
    + intros r0 m H. destruct (L3 r0 m H) as (Hle & w & o' & Hw). split; [exact Hle|]. exists w, o'.
      rewrite upd_other; [exact Hw|]. intros ->. congruence.
    + intros u H. discriminate.
    + intros u o0 H. destruct (Nat.eq_dec u t) as [->|Hne]; [rewrite upd_same in H; discriminate|].
      rewrite upd_other in H by exact Hne. eauto.
  - (* checkout *)
    destruct (thr s t) eqn:Et; try discriminate. destruct (pool s) as [|ml rest] eqn:Epool; try discriminate. inversion E; subst; clear E.
    simple_case HL Hin Et ltac:(rewrite Epool; cbn; lia) ltac:(discriminate) ltac:(discriminate).
  - (* lookup *)
    destruct (thr s t) eqn:Et; try discriminate. inversion E; subst; clear E. unfold set_thr.
    simple_case HL Hin Et ltac:(reflexivity) ltac:(discriminate) ltac:(discriminate).
  - (* remap *)
    destruct (thr s t) as [| | | | | | | | |k ml loc r| | | |] eqn:Et; try discriminate.
    destruct loc as [[pos len]|]; inversion E; subst; clear E; unfold set_thr.
    + simple_case HL Hin Et ltac:(reflexivity) ltac:(discriminate) ltac:(discriminate).
    + simple_case HL Hin Et ltac:(reflexivity) ltac:(discriminate) ltac:(discriminate).
  - (* slice *)
    destruct (thr s t) as [| | | | | | | | | |k ml loc r| | |] eqn:Et; try discriminate. destruct loc as [pos len].
    assert (Hfit : pos + len <= ml) by (specialize (Ht t); rewrite Et in Ht; cbn in Ht; tauto).
    replace (Nat.leb (pos + len) ml) with true in E by (symmetry; apply Nat.leb_le; exact Hfit).
    inversion E; subst; clear E; unfold set_thr.
    simple_case HL Hin Et ltac:(reflexivity) ltac:(discriminate) ltac:(discriminate).
  - (* checkin *)
    destruct (thr s t) eqn:Et; try discriminate. inversion E; subst; clear E.
    simple_case HL Hin Et ltac:(rewrite app_length; cbn; lia) ltac:(discriminate) ltac:(discriminate).
  - (* return *)
    destruct (thr s t) eqn:Et; try discriminate; inversion E; subst; clear E; unfold set_thr.
    + simple_case HL Hin Et ltac:(reflexivity) ltac:(discriminate) ltac:(discriminate).
    + simple_case HL Hin Et ltac:(reflexivity) ltac:(discriminate) ltac:(discriminate).
Qed.

Lemma hsum_idle : forall l, hsum (fun _ => PIdle) l = 0.
Proof. induction l as [|u l IH]; cbn [hsum holding]; [reflexivity|exact IH]. Qed.

Lemma init_live : live (linit cap).
Proof.
  unfold live, linit. cbn [thr partial wlock pool]. refine (conj _ (conj _ (conj _ (conj _ _)))).
  - reflexivity.
  - rewrite repeat_length, hsum_idle. lia.
  - intros r m H. discriminate.
  - intros t H. discriminate.
  - intros t o H. discriminate.
Qed.

Theorem run_live : forall es s s', safe s -> live s -> Forall (fun e => In (ev_thread e) ts) es -> run s es = Some s' -> safe s' /\ live s'.
Proof.
  induction es as [|e es IH]; intros s s' HS HL HF E; cbn [lrun] in E; [inversion E; subst; auto|].
  destruct (step s e) as [s1|] eqn:E1; [|discriminate]. inversion HF as [|? ? He HF']; subst.
  eapply IH; [eapply step_safe; eassumption|eapply step_live; eassumption|exact HF'|exact E].
Qed.

(* the thread that holds the mutex can always take a step *)
Lemma lock_holder_steps s u : safe s -> live s -> holds_lock (thr s u) = true -> exists e s', step s e = Some s'.
Proof.
  intros HS (L1 & L2 & L3 & L4 & L5) H. pose proof HS as (Hd & Hi & Ht & Hp & Hm & Hk).
  destruct (thr s u) eqn:Eu; try discriminate.
  - (* locked: begin *)
    destruct (L5 u o) as [Hlen Hng]; [rewrite Eu; reflexivity|].
    destruct (partial s) as [[r m]|] eqn:Ep.
    + exfalso. destruct (L3 r m eq_refl) as (_ & w & o' & Hw).
      assert (wlock s = Some w) by (apply Hm; rewrite Hw; reflexivity).
      assert (wlock s = Some u) by (apply Hm; rewrite Eu; reflexivity).
      assert (w = u) by congruence. subst. congruence.
    + exists (EBegin u). unfold lstep. rewrite Eu, Ep. apply Nat.ltb_lt in Hlen. rewrite Hlen. eauto.
  - (* writing: more bytes can always appear *)
    destruct (Hk u o Eu) as (m & Hpm). destruct (L3 _ _ Hpm) as (Hle & _).
    exists (EGrow u 0). unfold lstep. rewrite Eu, Hpm. replace (Nat.leb (m + 0) (rlen (rec_of o))) with true by (symmetry; apply Nat.leb_le; lia). eauto.
  - (* written: publish *)
    destruct (L5 u o) as [Hlen Hng]; [rewrite Eu; reflexivity|].
    exists (EPublish u). unfold lstep. rewrite Eu. destruct o; eauto. exfalso. eapply Hng. reflexivity.
  - exists (EUnlock u). unfold lstep. rewrite Eu. eauto.
Qed.

Lemma reader_holder_steps s u : safe s -> holding (thr s u) = 1 -> exists e s', step s e = Some s'.
Proof.
  intros HS H. destruct (thr s u) eqn:Eu; try discriminate.
  - exists (ELookup u). unfold lstep. rewrite Eu. eauto.
  - exists (ERemap u). unfold lstep. rewrite Eu. destruct loc as [[? ?]|]; eauto.
  - exists (ESlice u). unfold lstep. rewrite Eu. destruct loc. destruct (Nat.leb _ _); eauto.
  - exists (ECheckin u). unfold lstep. rewrite Eu. eauto.
Qed.

Theorem enabled_somewhere s t : 0 < cap -> safe s -> live s -> thr s t <> PIdle -> exists e s', step s e = Some s'.
Proof.
  intros Hcap HS HL Hne. pose proof HL as (L1 & L2 & L3 & L4 & L5). pose proof HS as (Hd & Hi & Ht & Hp & Hm & Hk).
  destruct (thr s t) eqn:Et.
  - contradiction.
  - (* waiting for the mutex *)
    destruct (wlock s) as [u|] eqn:Ew.
    + apply (lock_holder_steps s u HS HL). apply L4. reflexivity.
    + exists (ELock t). unfold lstep. rewrite Et, Ew. eauto.
  - apply (lock_holder_steps s t HS HL). rewrite Et. reflexivity.
  - apply (lock_holder_steps s t HS HL). rewrite Et. reflexivity.
  - apply (lock_holder_steps s t HS HL). rewrite Et. reflexivity.
  - apply (lock_holder_steps s t HS HL). rewrite Et. reflexivity.
  - exists (EReturn t). unfold lstep. rewrite Et. eauto.
  - (* waiting for a reader *)
    destruct (pool s) as [|ml rest] eqn:Epool.
    + cbn [length] in L2. assert (Hpos : 0 < hsum (thr s) ts) by lia.
      destruct (hsum_pos _ _ Hpos) as (u & _ & Hu). exact (reader_holder_steps s u HS Hu).
    + exists (ECheckout t). unfold lstep. rewrite Et, Epool. eauto.
  - apply (reader_holder_steps s t HS). rewrite Et. reflexivity.
  - apply (reader_holder_steps s t HS). rewrite Et. reflexivity.
  - apply (reader_holder_steps s t HS). rewrite Et. reflexivity.
  - apply (reader_holder_steps s t HS). rewrite Et. reflexivity.
  - exists (EReturn t). unfold lstep. rewrite Et. eauto.
  - exfalso. specialize (Ht t). rewrite Et in Ht. exact Ht.
Qed.
End Live.

Theorem pool_conserved cap ts es s :
  NoDup ts -> Forall (fun e => In (ev_thread e) ts) es -> lrun rule_fixed (linit cap) es = Some s ->
  length (pool s) + hsum (thr s) ts = cap.
Proof.
  intros Hn HF E. destruct (run_live cap ts Hn es _ _ (init_safe cap) (init_live cap ts) HF E) as (_ & (_ & H & _)). exact H.
Qed.

Theorem no_deadlock cap ts es s t :
  0 < cap -> NoDup ts -> Forall (fun e => In (ev_thread e) ts) es -> lrun rule_fixed (linit cap) es = Some s ->
  thr s t <> PIdle -> exists e s', lstep rule_fixed s e = Some s'.
Proof.
  intros Hc Hn HF E Hne. destruct (run_live cap ts Hn es _ _ (init_safe cap) (init_live cap ts) HF E) as (HS & HL).
  exact (enabled_somewhere cap ts s t Hc HS HL Hne).
Qed.

(* once every thread is idle the pool is full again *)
Corollary quiescent_pool_full cap ts es s :
  NoDup ts -> Forall (fun e => In (ev_thread e) ts) es -> lrun rule_fixed (linit cap) es = Some s ->
  (forall t, thr s t = PIdle) -> length (pool s) = cap.
Proof.
  intros Hn HF E Hq. pose proof (pool_conserved cap ts es s Hn HF E) as H.
  assert (H0 : forall l, hsum (thr s) l = 0) by (induction l as [|u l IH]; cbn [hsum]; [reflexivity|rewrite Hq; exact IH]).
  rewrite H0 in H. lia.
Qed.
