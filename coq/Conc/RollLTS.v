(* Conc/RollLTS.v — puts with rollover of the active file against gets with per-file mappings (the third
   interleaving model of C04).  Conc/StoreLTS.v has one data file and follows a record byte by byte;
   here records are atomic and the active file is replaced: the writer appends to the active file, may
   create the next file and make it the active one, and only then publishes the index entry (which
   points into the file it appended to).  A reader keeps, for every file it has touched, the number of
   records its mapping covers; a file it has not touched is opened and mapped at first use; a mapping
   that does not cover the wanted record is renewed (LogReader::at, repaired rule).  Proved for every
   schedule: a reader never finds the file missing or the record outside its (renewed) mapping, and
   reads the value that the abstract map held at its lookup. *)
From Coq Require Import List Arith Lia Bool.
Import ListNotations.

Definition key := nat.
Definition val := nat.
Definition fid := nat.
Record rrec := mkRRec { rk : key; rv : option val }.      (* rv = None: a tombstone *)

Inductive wpc := WIdle | WAppended (k : key) (loc : fid * nat) | WAppendedDel (k : key) | WDone (deleted : option bool).
Inductive gpc :=
| GIdle
| GLooked (k : key) (loc : option (fid * nat)) (commit : option val)
| GDone (k : key) (v : option val) (commit : option val)
| GFailed.

Record rst := mkRS {
  rfiles : fid -> option (list rrec);
  ractive : fid;
  ridx : key -> option (fid * nat);
  wstate : wpc;                                   (* the writer (the mutex serialises writers: one at a time) *)
  rreaders : nat -> gpc;
  rmaps : nat -> fid -> option nat                (* per reader and file: number of records its mapping covers *)
}.

Inductive rev :=
| WAppend (k : key) (v : val)      (* put: append the record to the active file *)
| WAppendDel (k : key)             (* delete: append a tombstone *)
| WRoll                            (* create the next file and make it the active one (between append and publish) *)
| WPublish                         (* KeyDir insert / remove *)
| WReturn
| GLookup (t : nat) (k : key)
| GRead (t : nat)
| GReturn (t : nat).

Definition upd {A} (f : nat -> A) (t : nat) (x : A) : nat -> A := fun u => if Nat.eqb u t then x else f u.

Definition rvalue_at (s : rst) (loc : fid * nat) : option val :=
  match rfiles s (fst loc) with
  | Some recs => match nth_error recs (snd loc) with Some r => rv r | None => None end
  | None => None
  end.
Definition rgmap (s : rst) (k : key) : option val := match ridx s k with Some loc => rvalue_at s loc | None => None end.

Section Rule.
Variable fixed : bool.       (* true: renew the mapping when it does not cover the record; false: never renew an existing mapping *)

Definition rstep (s : rst) (e : rev) : option rst :=
  match e with
  | WAppend k v =>
    match wstate s, rfiles s (ractive s) with
    | WIdle, Some recs =>
      Some (mkRS (upd (rfiles s) (ractive s) (Some (recs ++ [mkRRec k (Some v)]))) (ractive s) (ridx s) (WAppended k (ractive s, length recs)) (rreaders s) (rmaps s))
    | _, _ => None
    end
  | WAppendDel k =>
    match wstate s, rfiles s (ractive s) with
    | WIdle, Some recs =>
      Some (mkRS (upd (rfiles s) (ractive s) (Some (recs ++ [mkRRec k None]))) (ractive s) (ridx s) (WAppendedDel k) (rreaders s) (rmaps s))
    | _, _ => None
    end
  | WRoll =>
    match wstate s, rfiles s (S (ractive s)) with
    | WAppended k loc, None =>
      Some (mkRS (upd (rfiles s) (S (ractive s)) (Some [])) (S (ractive s)) (ridx s) (WAppended k loc) (rreaders s) (rmaps s))
    | WAppendedDel k, None =>
      Some (mkRS (upd (rfiles s) (S (ractive s)) (Some [])) (S (ractive s)) (ridx s) (WAppendedDel k) (rreaders s) (rmaps s))
    | _, _ => None
    end
  | WPublish =>
    match wstate s with
    | WAppended k loc => Some (mkRS (rfiles s) (ractive s) (upd (ridx s) k (Some loc)) (WDone None) (rreaders s) (rmaps s))
    | WAppendedDel k =>        (* KeyDir remove: the answer is whether an entry was there *)
      Some (mkRS (rfiles s) (ractive s) (upd (ridx s) k None) (WDone (Some (match ridx s k with Some _ => true | None => false end))) (rreaders s) (rmaps s))
    | _ => None
    end
  | WReturn => match wstate s with WDone _ => Some (mkRS (rfiles s) (ractive s) (ridx s) WIdle (rreaders s) (rmaps s)) | _ => None end
  | GLookup t k =>
    match rreaders s t with
    | GIdle => Some (mkRS (rfiles s) (ractive s) (ridx s) (wstate s) (upd (rreaders s) t (GLooked k (ridx s k) (rgmap s k))) (rmaps s))
    | _ => None
    end
  | GRead t =>
    match rreaders s t with
    | GLooked k None c => Some (mkRS (rfiles s) (ractive s) (ridx s) (wstate s) (upd (rreaders s) t (GDone k None c)) (rmaps s))
    | GLooked k (Some (f, p)) c =>
      match rfiles s f with
      | None => Some (mkRS (rfiles s) (ractive s) (ridx s) (wstate s) (upd (rreaders s) t GFailed) (rmaps s))      (* open() fails *)
      | Some recs =>
        (* the mapping used for this read: a new one for an untouched file, a renewed one if the rule says so *)
        let n := match rmaps s t f with
                 | None => length recs
                 | Some n0 => if fixed && (n0 <=? p) then length recs else n0
                 end in
        if p <? n
        then Some (mkRS (rfiles s) (ractive s) (ridx s) (wstate s) (upd (rreaders s) t (GDone k (match nth_error recs p with Some r => rv r | None => None end) c))
                        (upd (rmaps s) t (upd (rmaps s t) f (Some n))))
        else Some (mkRS (rfiles s) (ractive s) (ridx s) (wstate s) (upd (rreaders s) t GFailed) (rmaps s))            (* slice out of range *)
      end
    | _ => None
    end
  | GReturn t => match rreaders s t with GDone _ _ _ => Some (mkRS (rfiles s) (ractive s) (ridx s) (wstate s) (upd (rreaders s) t GIdle) (rmaps s)) | _ => None end
  end.

Fixpoint rrun (s : rst) (es : list rev) : option rst :=
  match es with [] => Some s | e :: es' => match rstep s e with Some s' => rrun s' es' | None => None end end.
End Rule.

Definition rinit : rst := mkRS (fun f => if Nat.eqb f 0 then Some [] else None) 0 (fun _ => None) WIdle (fun _ => GIdle) (fun _ _ => None).
