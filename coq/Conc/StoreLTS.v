(* Conc/StoreLTS.v — an interleaving model of concurrent put / get / delete on one data file, at the
   granularity at which the code's steps become visible to other threads:

   writer (holds the writer mutex from Lock to Unlock):
     Lock; Begin (the record starts to appear in the file); Grow n (more of its bytes appear, in ANY
     increments: the header of a large record is flushed before its payload); Finish (all bytes
     there); Publish (KeyDir insert / remove = the linearisation point); Unlock; Return.
   reader:
     Checkout (take a reader, with its own mapped length, from the bounded pool; blocks if empty);
     Lookup (KeyDir get = the linearisation point); Remap (LogReader::at: map the file again if the
     record does not fit the mapping); Slice (panic if it still does not fit: the reader is lost with
     the unwinding thread); Checkin; Return.

   [remap_rule] is the condition under which `at` maps the file again:
     repaired code:  pos + len > mapped length        pinned code:  pos >= mapped length          *)
From Coq Require Import List Arith Lia Bool.
Import ListNotations.
From BC Require Import Conc.Lin.

Definition key := nat.
Definition val := nat.
Record rec := mkRec { rk : key; rv : option val; rlen : nat }.       (* a record and its length in bytes *)

Inductive result := RUnit | RVal (v : option val) | RBool (b : bool).
Inductive opn := OpPut (k : key) (v : val) (len : nat) | OpGet (k : key) | OpDel (k : key) (len : nat).

Inductive pc :=
| PIdle
| PWWait (o : opn)                         (* put/del invoked, waiting for the mutex *)
| PWLocked (o : opn)
| PWWriting (o : opn)                      (* its record is the partial record of the file *)
| PWWritten (o : opn) (pos : nat)          (* record complete at [pos], not yet published *)
| PWPublished (r : result)                 (* committed, still holding the mutex *)
| PWUnlocked (r : result)
| PGWait (k : key)
| PGHave (k : key) (ml : nat)              (* reader checked out, mapped length ml *)
| PGLooked (k : key) (ml : nat) (loc : option (nat * nat)) (r : option val)   (* committed *)
| PGRemapped (k : key) (ml : nat) (loc : nat * nat) (r : option val)
| PGRead (ml : nat) (r : option val)
| PGDone (r : option val)
| PPanicked.

Record lst := mkL {
  data : list rec;                  (* complete records of the file, in order *)
  partial : option (rec * nat);     (* the record being appended and how many of its bytes are visible *)
  index : key -> option (nat * nat);
  gmap : key -> option val;         (* ghost: the abstract map *)
  wlock : option nat;
  pool : list nat;                  (* mapped lengths of the readers available in the pool *)
  thr : nat -> pc
}.

Fixpoint size (l : list rec) : nat := match l with [] => 0 | r :: l' => rlen r + size l' end.
Definition visible (s : lst) : nat := size (data s) + match partial s with Some (_, n) => n | None => 0 end.

(* the record that starts at byte [pos] *)
Fixpoint rec_at (l : list rec) (pos : nat) : option rec :=
  match l with
  | [] => None
  | r :: l' => if Nat.eqb pos 0 then Some r else if Nat.ltb pos (rlen r) then None else rec_at l' (pos - rlen r)
  end.

Inductive lev :=
| EInvoke (t : nat) (o : opn)
| ELock (t : nat) | EBegin (t : nat) | EGrow (t : nat) (n : nat) | EFinish (t : nat) | EPublish (t : nat) | EUnlock (t : nat)
| ECheckout (t : nat) | ELookup (t : nat) | ERemap (t : nat) | ESlice (t : nat) | ECheckin (t : nat)
| EReturn (t : nat).

Definition upd {A} (f : nat -> A) (t : nat) (x : A) : nat -> A := fun u => if Nat.eqb u t then x else f u.

Definition rec_of (o : opn) : rec :=
  match o with
  | OpPut k v len => mkRec k (Some v) len
  | OpDel k len => mkRec k None len
  | OpGet k => mkRec k None 0
  end.

(* every record has a header: its length is positive *)
Definition wf_op (o : opn) : bool := match o with OpGet _ => true | _ => Nat.ltb 0 (rlen (rec_of o)) end.

Definition ev_thread (e : lev) : nat :=
  match e with
  | EInvoke t _ | ELock t | EBegin t | EGrow t _ | EFinish t | EPublish t | EUnlock t
  | ECheckout t | ELookup t | ERemap t | ESlice t | ECheckin t | EReturn t => t
  end.

Section Rule.
Variable remap_rule : nat -> nat -> nat -> bool.     (* pos len mapped_len -> map again? *)

Definition set_thr (s : lst) (t : nat) (p : pc) : lst :=
  mkL (data s) (partial s) (index s) (gmap s) (wlock s) (pool s) (upd (thr s) t p).

Definition lstep (s : lst) (e : lev) : option lst :=
  match e with
  | EInvoke t o =>
    match thr s t with
    | PIdle => if wf_op o then Some (set_thr s t (match o with OpGet k => PGWait k | _ => PWWait o end)) else None
    | _ => None
    end
  | ELock t =>
    match thr s t, wlock s with
    | PWWait o, None => Some (mkL (data s) (partial s) (index s) (gmap s) (Some t) (pool s) (upd (thr s) t (PWLocked o)))
    | _, _ => None
    end
  | EBegin t =>
    match thr s t, partial s with
    | PWLocked o, None => if Nat.ltb 0 (rlen (rec_of o))
                          then Some (mkL (data s) (Some (rec_of o, 0)) (index s) (gmap s) (wlock s) (pool s) (upd (thr s) t (PWWriting o)))
                          else None
    | _, _ => None
    end
  | EGrow t n =>
    match thr s t, partial s with
    | PWWriting o, Some (r, m) => if Nat.leb (m + n) (rlen r)
                                  then Some (mkL (data s) (Some (r, m + n)) (index s) (gmap s) (wlock s) (pool s) (thr s))
                                  else None
    | _, _ => None
    end
  | EFinish t =>
    match thr s t, partial s with
    | PWWriting o, Some (r, m) => if Nat.eqb m (rlen r)
                                  then Some (mkL (data s ++ [r]) None (index s) (gmap s) (wlock s) (pool s) (upd (thr s) t (PWWritten o (size (data s)))))
                                  else None
    | _, _ => None
    end
  | EPublish t =>
    match thr s t with
    | PWWritten (OpPut k v len) pos =>
      Some (mkL (data s) (partial s) (upd (index s) k (Some (pos, len))) (upd (gmap s) k (Some v)) (wlock s) (pool s) (upd (thr s) t (PWPublished RUnit)))
    | PWWritten (OpDel k len) pos =>
      Some (mkL (data s) (partial s) (upd (index s) k None) (upd (gmap s) k None) (wlock s) (pool s)
                (upd (thr s) t (PWPublished (RBool (match index s k with Some _ => true | None => false end)))))
    | _ => None
    end
  | EUnlock t =>
    match thr s t with
    | PWPublished r => Some (mkL (data s) (partial s) (index s) (gmap s) None (pool s) (upd (thr s) t (PWUnlocked r)))
    | _ => None
    end
  | ECheckout t =>
    match thr s t, pool s with
    | PGWait k, ml :: rest => Some (mkL (data s) (partial s) (index s) (gmap s) (wlock s) rest (upd (thr s) t (PGHave k ml)))
    | _, _ => None
    end
  | ELookup t =>
    match thr s t with
    | PGHave k ml =>
      let r := match index s k with
               | Some (pos, _) => match rec_at (data s) pos with Some rc => rv rc | None => None end
               | None => None
               end in
      Some (set_thr s t (PGLooked k ml (index s k) r))
    | _ => None
    end
  | ERemap t =>
    match thr s t with
    | PGLooked k ml (Some (pos, len)) r =>
      Some (set_thr s t (PGRemapped k (if remap_rule pos len ml then visible s else ml) (pos, len) r))
    | PGLooked k ml None r => Some (set_thr s t (PGRead ml r))
    | _ => None
    end
  | ESlice t =>
    match thr s t with
    | PGRemapped k ml (pos, len) r =>
      if Nat.leb (pos + len) ml then Some (set_thr s t (PGRead ml r))
      else Some (set_thr s t PPanicked)                      (* index out of range: the thread unwinds, its reader is dropped *)
    | _ => None
    end
  | ECheckin t =>
    match thr s t with
    | PGRead ml r => Some (mkL (data s) (partial s) (index s) (gmap s) (wlock s) (pool s ++ [ml]) (upd (thr s) t (PGDone r)))
    | _ => None
    end
  | EReturn t =>
    match thr s t with
    | PWUnlocked r => Some (set_thr s t PIdle)
    | PGDone r => Some (set_thr s t PIdle)
    | _ => None
    end
  end.

Fixpoint lrun (s : lst) (es : list lev) : option lst :=
  match es with [] => Some s | e :: es' => match lstep s e with Some s' => lrun s' es' | None => None end end.

Definition linit (capacity : nat) : lst :=
  mkL [] None (fun _ => None) (fun _ => None) None (repeat 0 capacity) (fun _ => PIdle).
End Rule.

Definition rule_fixed (pos len ml : nat) : bool := Nat.ltb ml (pos + len).
Definition rule_pinned (pos len ml : nat) : bool := Nat.leb ml pos.
