(* Conc/Widen.v — widening the interval of an operation keeps a history accepted by the commit-point
   monitor of Conc/Lin.v.  A client of the server sees each command over a wider interval than the
   store operation that executes it (the request travels to the server and waits for a blocking
   thread before the store is invoked; the reply travels back after the store returned).  Moving an
   invocation earlier, or a return later, past events of OTHER threads never turns an accepted
   history into a rejected one: the commit points stay inside the wider intervals. *)
From Coq Require Import List Arith Lia Bool.
Import ListNotations.
From BC Require Import Conc.Lin.

Section Widen.
Variables (S O R : Type).
Variable spec : S -> O -> S * R.
Variable Req : R -> R -> bool.

Notation mon := (mon S O R).
Notation mstep := (mstep S O R spec Req).
Notation mrun := (mrun S O R spec Req).
Notation iev := (iev O R).

(* what acceptance depends on: the ghost state and, per thread, whether it is idle, has an operation
   pending, or has committed one with a result — not the ids, the clock or the real-time bookkeeping *)
Definition kind_eq (a b : tstatus O R) : Prop :=
  match a, b with
  | Idle _ _, Idle _ _ => True
  | Pending _ _ _ o, Pending _ _ _ o' => o = o'
  | Committed _ _ _ o r, Committed _ _ _ o' r' => o = o' /\ r = r'
  | _, _ => False
  end.

Definition sim (m m' : mon) : Prop := ghost _ _ _ m = ghost _ _ _ m' /\ forall t, kind_eq (status _ _ _ m t) (status _ _ _ m' t).

Lemma sim_refl m : sim m m.
Proof. split; [reflexivity|]. intros t. destruct (status _ _ _ m t); cbn; auto. Qed.

Lemma sim_step m m' e m1 : sim m m' -> mstep m e = Some m1 -> exists m1', mstep m' e = Some m1' /\ sim m1 m1'.
Proof.
  intros [Hg Hs] H. unfold Lin.mstep in *. destruct e as [t o|t|t r].
  - pose proof (Hs t) as Ht. destruct (status _ _ _ m t) eqn:E; try discriminate. destruct (status _ _ _ m' t) eqn:E'; cbn in Ht; try contradiction.
    inversion H; subst; clear H. eexists. split; [reflexivity|]. split; [exact Hg|]. intros u. cbn [status]. unfold set_status.
    destruct (Nat.eqb u t); [cbn; reflexivity|apply Hs].
  - pose proof (Hs t) as Ht. destruct (status _ _ _ m t) as [|id o|] eqn:E; try discriminate. destruct (status _ _ _ m' t) as [|id' o'|] eqn:E'; cbn in Ht; try contradiction. subst o'.
    rewrite <- Hg. destruct (spec (ghost _ _ _ m) o) as [s' r]. inversion H; subst; clear H. eexists. split; [reflexivity|]. split; [reflexivity|].
    intros u. cbn [status]. unfold set_status. destruct (Nat.eqb u t); [cbn; auto|apply Hs].
  - pose proof (Hs t) as Ht. destruct (status _ _ _ m t) as [| |id o r'] eqn:E; try discriminate. destruct (status _ _ _ m' t) as [| |id' o' r''] eqn:E'; cbn in Ht; try contradiction.
    destruct Ht as [-> ->]. destruct (Req r r''); [|discriminate]. inversion H; subst; clear H. eexists. split; [reflexivity|]. split; [exact Hg|].
    intros u. cbn [status]. unfold set_status. destruct (Nat.eqb u t); [cbn; exact I|apply Hs].
Qed.

Lemma sim_run : forall es m m' m1, sim m m' -> mrun m es = Some m1 -> exists m1', mrun m' es = Some m1' /\ sim m1 m1'.
Proof.
  induction es as [|e es IH]; intros m m' m1 Hs H; cbn [Lin.mrun] in *; [inversion H; subst; eauto|].
  destruct (mstep m e) as [m2|] eqn:E; [|discriminate]. destruct (sim_step m m' e m2 Hs E) as (m2' & E' & Hs2). rewrite E'. eapply IH; eauto.
Qed.

Definition ev_thread (e : iev) : nat := match e with IInv _ _ t _ | ICommit _ _ t | IRet _ _ t _ => t end.

Definition is_commit (e : iev) : bool := match e with ICommit _ _ _ => true | _ => false end.

Lemma set_status_same (f : nat -> tstatus O R) t x : set_status O R f t x t = x.
Proof. unfold set_status. rewrite Nat.eqb_refl. reflexivity. Qed.
Lemma set_status_other (f : nat -> tstatus O R) t x u : u <> t -> set_status O R f t x u = f u.
Proof. intros H. unfold set_status. apply Nat.eqb_neq in H. rewrite H. reflexivity. Qed.

(* a step reads and writes only the status of its own thread, and only a commit touches the ghost state *)
Lemma step_local (a b : mon) e : mstep a e = Some b ->
  (forall u, u <> ev_thread e -> status _ _ _ b u = status _ _ _ a u) /\ (is_commit e = false -> ghost _ _ _ b = ghost _ _ _ a).
Proof.
  intros H. unfold Lin.mstep in H. destruct e as [t o|t|t r]; cbn [ev_thread is_commit].
  - destruct (status _ _ _ a t); try discriminate. inversion H; subst. cbn [status ghost]. split; [intros u Hu; apply set_status_other; exact Hu|reflexivity].
  - destruct (status _ _ _ a t); try discriminate. destruct (spec (ghost _ _ _ a) o). inversion H; subst. cbn [status ghost]. split; [intros u Hu; apply set_status_other; exact Hu|discriminate].
  - destruct (status _ _ _ a t); try discriminate. destruct (Req r r0); [|discriminate]. inversion H; subst. cbn [status ghost]. split; [intros u Hu; apply set_status_other; exact Hu|reflexivity].
Qed.

(* whether a step is enabled, and what it does to its thread and to the ghost state, depends only on the
   ghost state and on the status of its thread *)
Lemma step_determined (a a' : mon) e b : ghost _ _ _ a = ghost _ _ _ a' -> kind_eq (status _ _ _ a (ev_thread e)) (status _ _ _ a' (ev_thread e)) ->
  mstep a e = Some b -> exists b', mstep a' e = Some b' /\ ghost _ _ _ b = ghost _ _ _ b' /\ kind_eq (status _ _ _ b (ev_thread e)) (status _ _ _ b' (ev_thread e)).
Proof.
  intros Hg Hk H. unfold Lin.mstep in *. destruct e as [t o|t|t r]; cbn [ev_thread] in *.
  - destruct (status _ _ _ a t); try discriminate. destruct (status _ _ _ a' t); cbn in Hk; try contradiction. inversion H; subst. eexists. split; [reflexivity|].
    cbn [ghost status]. rewrite !set_status_same. split; [exact Hg|cbn; reflexivity].
  - destruct (status _ _ _ a t) as [|id o|]; try discriminate. destruct (status _ _ _ a' t) as [|id' o'|]; cbn in Hk; try contradiction. subst o'.
    rewrite <- Hg. destruct (spec (ghost _ _ _ a) o) as [s' r]. inversion H; subst. eexists. split; [reflexivity|]. cbn [ghost status]. rewrite !set_status_same. split; [reflexivity|cbn; auto].
  - destruct (status _ _ _ a t) as [| |id o r']; try discriminate. destruct (status _ _ _ a' t) as [| |id' o' r'']; cbn in Hk; try contradiction. destruct Hk as [-> ->].
    destruct (Req r r''); [|discriminate]. inversion H; subst. eexists. split; [reflexivity|]. cbn [ghost status]. rewrite !set_status_same. split; [exact Hg|cbn; exact I].
Qed.

Lemma kind_eq_refl x : kind_eq x x.
Proof. destruct x; cbn; auto. Qed.

(* two events of different threads commute up to [sim], unless both are commits *)
Lemma commute m e1 e2 m2 : ev_thread e1 <> ev_thread e2 -> is_commit e1 = false \/ is_commit e2 = false ->
  mrun m [e1; e2] = Some m2 -> exists m2', mrun m [e2; e1] = Some m2' /\ sim m2 m2'.
Proof.
  intros Hne Hnc H. cbn [Lin.mrun] in H. destruct (mstep m e1) as [m1|] eqn:E1; [|discriminate]. destruct (mstep m1 e2) as [m2x|] eqn:E2; [|discriminate]. inversion H; subst m2x; clear H.
  destruct (step_local m m1 e1 E1) as [L1 G1]. destruct (step_local m1 m2 e2 E2) as [L2 G2].
  (* e2 is enabled in m: same ghost as m1 if e1 is not a commit; if e1 is a commit then e2 is not and does not read the ghost state *)
  assert (E2' : exists n1, mstep m e2 = Some n1 /\ kind_eq (status _ _ _ m2 (ev_thread e2)) (status _ _ _ n1 (ev_thread e2)) /\
                           (is_commit e1 = false -> ghost _ _ _ m2 = ghost _ _ _ n1)).
  { destruct (is_commit e1) eqn:C1.
    - destruct Hnc as [Hc|Hc2]; [discriminate|].
      (* e2 is an invocation or a return: its step ignores the ghost state *)
      destruct e2 as [t o|t|t r]; try discriminate; cbn [ev_thread] in *;
        (assert (Hst : status _ _ _ m1 t = status _ _ _ m t) by (apply L1; intros E; apply Hne; symmetry; exact E));
        unfold Lin.mstep in E2 |- *; rewrite Hst in E2.
      + destruct (status _ _ _ m t); try discriminate. inversion E2; subst. eexists. split; [reflexivity|]. cbn [status ghost]. rewrite !set_status_same. split; [cbn; reflexivity|discriminate].
      + destruct (status _ _ _ m t); try discriminate. destruct (Req r r0); [|discriminate]. inversion E2; subst. eexists. split; [reflexivity|]. cbn [status ghost]. rewrite !set_status_same. split; [cbn; exact I|discriminate].
    - destruct (step_determined m1 m e2 m2 (G1 eq_refl)) as (n1 & En & Hg & Hk); [rewrite (L1 (ev_thread e2)) by (intros E; apply Hne; symmetry; exact E); apply kind_eq_refl|exact E2|].
      exists n1. split; [exact En|]. split; [exact Hk|intros _; exact Hg]. }
  destruct E2' as (n1 & En1 & Hk2 & Hg2).
  destruct (step_local m n1 e2 En1) as [L2' G2'].
  (* then e1 is enabled in n1 *)
  assert (E1' : exists n2, mstep n1 e1 = Some n2 /\ kind_eq (status _ _ _ m1 (ev_thread e1)) (status _ _ _ n2 (ev_thread e1)) /\
                           ghost _ _ _ m2 = ghost _ _ _ n2).
  { destruct (is_commit e2) eqn:C2.
    - destruct Hnc as [Hc1|Hc]; [|discriminate].
      destruct e1 as [t o|t|t r]; try discriminate; cbn [ev_thread] in *;
        (assert (Hst : status _ _ _ n1 t = status _ _ _ m t) by (apply L2'; exact Hne));
        unfold Lin.mstep in E1 |- *; rewrite Hst.
      + destruct (status _ _ _ m t); try discriminate. inversion E1; subst. eexists. split; [reflexivity|]. cbn [status ghost]. rewrite !set_status_same. split; [cbn; reflexivity|].
        rewrite <- (Hg2 eq_refl). reflexivity.
      + destruct (status _ _ _ m t); try discriminate. destruct (Req r r0); [|discriminate]. inversion E1; subst. eexists. split; [reflexivity|]. cbn [status ghost]. rewrite !set_status_same. split; [cbn; exact I|].
        rewrite <- (Hg2 eq_refl). reflexivity.
    - destruct (step_determined m n1 e1 m1 (eq_sym (G2' eq_refl))) as (n2 & En & Hg & Hk); [rewrite (L2' (ev_thread e1)) by exact Hne; apply kind_eq_refl|exact E1|].
      exists n2. split; [exact En|]. split; [exact Hk|]. rewrite (G2 eq_refl). exact Hg. }
  destruct E1' as (n2 & En2 & Hk1 & Hgf).
  destruct (step_local n1 n2 e1 En2) as [L1' _].
  exists n2. cbn [Lin.mrun]. rewrite En1, En2. split; [reflexivity|]. split; [exact Hgf|].
  intros u. destruct (Nat.eq_dec u (ev_thread e1)) as [->|Hu1].
  - rewrite (L2 (ev_thread e1)) by exact Hne. exact Hk1.
  - destruct (Nat.eq_dec u (ev_thread e2)) as [->|Hu2].
    + rewrite (L1' (ev_thread e2)) by (intros E; apply Hne; symmetry; exact E). exact Hk2.
    + rewrite (L2 u Hu2), (L1 u Hu1), (L1' u Hu1), (L2' u Hu2). apply kind_eq_refl.
Qed.

Definition accepted (m : mon) (es : list iev) : Prop := exists m', mrun m es = Some m'.

Lemma mrun_app a : forall m b, mrun m (a ++ b) = match mrun m a with Some m' => mrun m' b | None => None end.
Proof. induction a as [|e a IH]; intros m b; cbn [app Lin.mrun]; [reflexivity|]. destruct (mstep m e); [apply IH|reflexivity]. Qed.

(* swapping two adjacent events of different threads, not both commits, anywhere in a history *)
Theorem swap_accepted m pre e1 e2 post : ev_thread e1 <> ev_thread e2 -> is_commit e1 = false \/ is_commit e2 = false ->
  accepted m (pre ++ e1 :: e2 :: post) -> accepted m (pre ++ e2 :: e1 :: post).
Proof.
  intros Hne Hnc (mf & H). rewrite mrun_app in H. destruct (mrun m pre) as [m1|] eqn:Ep; [|discriminate].
  change (e1 :: e2 :: post) with ([e1; e2] ++ post) in H. rewrite mrun_app in H. destruct (mrun m1 [e1; e2]) as [m2|] eqn:E12; [|discriminate].
  destruct (commute m1 e1 e2 m2 Hne Hnc E12) as (m2' & E21 & Hs). destruct (sim_run post m2 m2' mf Hs H) as (mf' & Hf & _).
  exists mf'. rewrite mrun_app, Ep. change (e2 :: e1 :: post) with ([e2; e1] ++ post). rewrite mrun_app, E21. exact Hf.
Qed.

(* C11: the invocation of an operation may be moved earlier past any events of other threads, and its
   return later: the history stays accepted, hence (commit_order_linearizes) linearizable *)
Theorem invocation_earlier m pre mid t o post : Forall (fun e => ev_thread e <> t) mid ->
  accepted m (pre ++ mid ++ IInv _ _ t o :: post) -> accepted m (pre ++ IInv _ _ t o :: mid ++ post).
Proof.
  revert pre post. induction mid as [|e mid IH] using rev_ind; intros pre post Hf H; [exact H|].
  apply Forall_app in Hf as [Hf1 Hf2]. inversion Hf2 as [|? ? He _]; subst.
  rewrite <- app_assoc in H. cbn [app] in H.
  assert (H' : accepted m (pre ++ mid ++ IInv _ _ t o :: e :: post)).
  { rewrite app_assoc in H |- *. apply swap_accepted; [cbn; exact He|right; reflexivity|exact H]. }
  replace (pre ++ IInv O R t o :: (mid ++ [e]) ++ post) with (pre ++ IInv O R t o :: mid ++ e :: post) by (rewrite <- app_assoc; reflexivity).
  apply (IH pre (e :: post) Hf1). exact H'.
Qed.

Theorem return_later m pre t r mid post : Forall (fun e => ev_thread e <> t) mid ->
  accepted m (pre ++ IRet _ _ t r :: mid ++ post) -> accepted m (pre ++ mid ++ IRet _ _ t r :: post).
Proof.
  revert pre. induction mid as [|e mid IH]; intros pre Hf H; [exact H|].
  inversion Hf as [|? ? He Hf']; subst. cbn [app] in *.
  assert (H' : accepted m (pre ++ e :: IRet _ _ t r :: mid ++ post)).
  { apply swap_accepted; [cbn; intros E; apply He; symmetry; exact E|left; reflexivity|exact H]. }
  replace (pre ++ e :: mid ++ IRet O R t r :: post) with ((pre ++ [e]) ++ mid ++ IRet O R t r :: post) by (rewrite <- app_assoc; reflexivity).
  apply IH; [exact Hf'|]. rewrite <- app_assoc. exact H'.
Qed.
End Widen.
