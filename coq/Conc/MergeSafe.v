(* Conc/MergeSafe.v — safety and value-correctness of gets against a merge pass, for every schedule;
   refutation of the variant in which the reader drops its guard before reading. *)
From Coq Require Import List Arith Lia Bool.
Import ListNotations.
From BC Require Import Conc.MergeLTS.

Lemma existsb_In f sel : existsb (Nat.eqb f) sel = true <-> In f sel.
Proof.
  rewrite existsb_exists. split; [intros (x & Hx & E); apply Nat.eqb_eq in E; subst; exact Hx|intros H; exists f; split; [exact H|apply Nat.eqb_refl]].
Qed.

Lemma upd_same {A} (f : nat -> A) t x : upd f t x t = x.
Proof. unfold upd. rewrite Nat.eqb_refl. reflexivity. Qed.
Lemma upd_other {A} (f : nat -> A) t u x : u <> t -> upd f t x u = f u.
Proof. intros H. unfold upd. apply Nat.eqb_neq in H. rewrite H. reflexivity. Qed.

Section Safe.
Variable T : nat.
Notation step := (mstep T true).
Notation run := (mrun T true).

Definition valid_loc (s : mst) (loc : fid * nat) : Prop := exists recs, files s (fst loc) = Some recs /\ snd loc < length recs.

Definition J (s : mst) : Prop :=
  (forall k loc, idx s k = Some loc -> valid_loc s loc) /\
  (forall t k loc c, readers s t = RLooked k loc c -> t < T /\ loc = idx s k /\ c = gmap s k) /\
  (forall t k v c, readers s t = RDone k v c -> v = c /\ c = gmap s k) /\
  (forall t, readers s t <> RFailed) /\
  match mph s with
  | MCopying todo sel mid => files s mid <> None /\ ~ In mid sel /\ (forall k f p, idx s k = Some (f, p) -> In f sel -> In k todo)
  | MUnlinking sel => forall k f p, idx s k = Some (f, p) -> ~ In f sel
  | _ => True
  end.

(* runs in which every merge starts with a work list that covers the selected files *)
Fixpoint run_ok (s : mst) (es : list mev) : Prop :=
  match es with
  | [] => True
  | e :: es' => (match e with MStart sel todo _ => covers s sel todo | _ => True end) /\
                match step s e with Some s' => run_ok s' es' | None => True end
  end.

(* the value of a valid location does not depend on what is appended elsewhere or unlinked elsewhere *)
Lemma value_at_stable s s' loc : valid_loc s loc ->
  (forall recs, files s (fst loc) = Some recs -> exists more, files s' (fst loc) = Some (recs ++ more)) -> value_at s' loc = value_at s loc.
Proof.
  intros (recs & Hf & Hlt) H. destruct (H recs Hf) as (more & Hf'). unfold value_at. rewrite Hf, Hf'. rewrite nth_error_app1 by exact Hlt. reflexivity.
Qed.

Lemma guard_free_spec s k : guard_free T true s k = true -> forall t, t < T -> holds_guard k (readers s t) = false.
Proof.
  unfold guard_free. cbn [negb orb]. rewrite forallb_forall. intros H t Ht. specialize (H t (proj2 (in_seq T 0 t) ltac:(lia))).
  apply negb_true_iff in H. exact H.
Qed.

Lemma step_J s e s' : J s -> (match e with MStart sel todo _ => covers s sel todo | _ => True end) -> step s e = Some s' ->
  J s' /\ forall k, gmap s' k = gmap s k.
Proof.
  intros (J1 & J2 & J3 & J4 & J5) Hcov H. unfold mstep in H. destruct e as [t k|t|t|sel todo mid| | | |].
  - (* lookup *)
    destruct (Nat.ltb_spec t T) as [Ht|]; [|discriminate]. destruct (readers s t) eqn:Er; try discriminate. inversion H; subst; clear H.
    split; [|reflexivity]. unfold J. cbn [files idx readers mph]. split; [exact J1|]. split; [|split; [|split; [|exact J5]]].
    + intros u k' loc c Hu. destruct (Nat.eq_dec u t) as [->|Hne]; [rewrite upd_same in Hu; inversion Hu; subst; auto|rewrite upd_other in Hu by exact Hne; exact (J2 u k' loc c Hu)].
    + intros u k' v c Hu. destruct (Nat.eq_dec u t) as [->|Hne]; [rewrite upd_same in Hu; discriminate|rewrite upd_other in Hu by exact Hne; exact (J3 u k' v c Hu)].
    + intros u. destruct (Nat.eq_dec u t) as [->|Hne]; [rewrite upd_same; discriminate|rewrite upd_other by exact Hne; apply J4].
  - (* read *)
    destruct (readers s t) as [|k loc c| |] eqn:Er; try discriminate. destruct (J2 t k loc c Er) as (Ht & Hloc & Hc).
    assert (Hgoal : forall v, v = c -> J (mkMS (files s) (idx s) (upd (readers s) t (RDone k v c)) (mph s))).
    { intros v Hv. unfold J. cbn [files idx readers mph]. split; [exact J1|]. split; [|split; [|split; [|exact J5]]].
      - intros u k' loc' c' Hu. destruct (Nat.eq_dec u t) as [->|Hne]; [rewrite upd_same in Hu; discriminate|rewrite upd_other in Hu by exact Hne; exact (J2 u k' loc' c' Hu)].
      - intros u k' v' c' Hu. destruct (Nat.eq_dec u t) as [->|Hne]; [rewrite upd_same in Hu; inversion Hu; subst; split; [reflexivity|first [exact Hc|reflexivity]]|rewrite upd_other in Hu by exact Hne; exact (J3 u k' v' c' Hu)].
      - intros u. destruct (Nat.eq_dec u t) as [->|Hne]; [rewrite upd_same; discriminate|rewrite upd_other by exact Hne; apply J4]. }
    destruct loc as [loc|].
    + symmetry in Hloc. destruct (J1 k loc Hloc) as (recs & Hf & Hlt). rewrite Hf in H. inversion H; subst; clear H. split; [|reflexivity].
      apply Hgoal. unfold gmap. rewrite Hloc. unfold value_at. rewrite Hf. reflexivity.
    + inversion H; subst; clear H. split; [|reflexivity]. apply Hgoal. unfold gmap. rewrite <- Hloc. reflexivity.
  - (* return *)
    destruct (readers s t) eqn:Er; try discriminate. inversion H; subst; clear H. split; [|reflexivity].
    unfold J. cbn [files idx readers mph]. split; [exact J1|]. split; [|split; [|split; [|exact J5]]].
    + intros u k' loc' c' Hu. destruct (Nat.eq_dec u t) as [->|Hne]; [rewrite upd_same in Hu; discriminate|rewrite upd_other in Hu by exact Hne; exact (J2 u k' loc' c' Hu)].
    + intros u k' v' c' Hu. destruct (Nat.eq_dec u t) as [->|Hne]; [rewrite upd_same in Hu; discriminate|rewrite upd_other in Hu by exact Hne; exact (J3 u k' v' c' Hu)].
    + intros u. destruct (Nat.eq_dec u t) as [->|Hne]; [rewrite upd_same; discriminate|rewrite upd_other by exact Hne; apply J4].
  - (* the merge starts: its output file is created *)
    destruct (mph s) eqn:Ep; try discriminate. destruct (files s mid) eqn:Em; try discriminate.
    destruct (existsb (Nat.eqb mid) sel) eqn:Es; [discriminate|]. inversion H; subst; clear H. cbn [negb] in *.
    assert (Hfiles : forall f recs, files s f = Some recs -> upd (files s) mid (Some []) f = Some recs).
    { intros f recs Hf. rewrite upd_other; [exact Hf|]. intros ->. congruence. }
    assert (Hval : forall loc, valid_loc s loc -> valid_loc (mkMS (upd (files s) mid (Some [])) (idx s) (readers s) (MCopying todo sel mid)) loc /\
                                          value_at (mkMS (upd (files s) mid (Some [])) (idx s) (readers s) (MCopying todo sel mid)) loc = value_at s loc).
    { intros loc (recs & Hf & Hlt). split; [exists recs; cbn [files]; auto|]. unfold value_at. cbn [files]. rewrite (Hfiles _ _ Hf), Hf. reflexivity. }
    assert (Hg : forall k, gmap (mkMS (upd (files s) mid (Some [])) (idx s) (readers s) (MCopying todo sel mid)) k = gmap s k).
    { intros k. unfold gmap. cbn [idx]. destruct (idx s k) as [loc|] eqn:Ei; [|reflexivity]. apply Hval. apply (J1 k loc Ei). }
    split; [|exact Hg]. unfold J. cbn [files idx readers mph]. split; [intros k loc Hk; apply Hval; apply (J1 k loc Hk)|]. split; [|split; [intros u k v c Hu; destruct (J3 u k v c Hu) as [Hv Hc]; split; [exact Hv|rewrite Hc; symmetry; apply Hg]|split; [exact J4|]]].
    + intros u k loc c Hu. destruct (J2 u k loc c Hu) as (Ht & Hl & Hc). split; [exact Ht|]. split; [exact Hl|]. rewrite Hc. symmetry. apply Hg.
    + split; [rewrite upd_same; discriminate|]. split; [intros Hin; apply existsb_In in Hin; congruence|].
      intros k f p Hk Hin. apply (Hcov k f p Hk). apply existsb_In. exact Hin.
  - (* one copy *)
    destruct (mph s) as [|todo sel mid| |] eqn:Ep; try discriminate. destruct todo as [|k todo]; [discriminate|].
    destruct J5 as (Hmid & Hnot & Hcover).
    assert (Hskip : (forall f p, idx s k = Some (f, p) -> ~ In f sel) ->
              J (mkMS (files s) (idx s) (readers s) (MCopying todo sel mid)) /\ forall k', gmap (mkMS (files s) (idx s) (readers s) (MCopying todo sel mid)) k' = gmap s k').
    { intros Hno. split; [|reflexivity]. unfold J. cbn [files idx readers mph]. split; [exact J1|]. split; [exact J2|]. split; [exact J3|]. split; [exact J4|].
      split; [exact Hmid|]. split; [exact Hnot|]. intros k' f p Hk' Hin. destruct (Hcover k' f p Hk' Hin) as [<-|H']; [exfalso; exact (Hno f p Hk' Hin)|exact H']. }
    destruct (idx s k) as [[f p]|] eqn:Ek.
    2:{ inversion H; subst; clear H. apply Hskip. intros; discriminate. }
    destruct (existsb (Nat.eqb f) sel) eqn:Esel.
    2:{ inversion H; subst; clear H. apply Hskip. intros f' p' E Hin. inversion E; subst. apply existsb_In in Hin. congruence. }
    destruct (guard_free T true s k) eqn:Eg; [|discriminate].
    destruct (files s f) as [recs|] eqn:Ef; [|discriminate]. destruct (files s mid) as [out|] eqn:Eo; [|discriminate].
    destruct (nth_error recs p) as [r|] eqn:En; [|discriminate]. inversion H; subst; clear H.
    apply existsb_In in Esel.
    assert (Hfm : f <> mid) by (intros ->; contradiction).
    set (s' := mkMS (upd (files s) mid (Some (out ++ [r]))) (upd (idx s) k (Some (mid, length out))) (readers s) (MCopying todo sel mid)).
    assert (Hval : forall loc, valid_loc s loc -> valid_loc s' loc /\ value_at s' loc = value_at s loc).
    { intros loc Hv. assert (Hext : forall recs0, files s (fst loc) = Some recs0 -> exists more, files s' (fst loc) = Some (recs0 ++ more)).
      { intros recs0 Hf0. cbn [files s']. destruct (Nat.eq_dec (fst loc) mid) as [E|E].
        - rewrite E in *. rewrite upd_same. rewrite Eo in Hf0. inversion Hf0; subst. eauto.
        - rewrite upd_other by exact E. exists []. rewrite app_nil_r. exact Hf0. }
      split; [|apply value_at_stable; assumption]. destruct Hv as (recs0 & Hf0 & Hlt). destruct (Hext recs0 Hf0) as (more & Hf'). exists (recs0 ++ more).
      split; [exact Hf'|rewrite app_length; lia]. }
    assert (Hnew : valid_loc s' (mid, length out) /\ value_at s' (mid, length out) = value_at s (f, p)).
    { split; [exists (out ++ [r]); cbn [fst snd files s']; rewrite upd_same; split; [reflexivity|rewrite app_length; cbn; lia]|].
      unfold value_at. cbn [fst snd files s']. rewrite upd_same, Ef, nth_error_app2, Nat.sub_diag, En by lia. reflexivity. }
    assert (Hg : forall k', gmap s' k' = gmap s k').
    { intros k'. unfold gmap. cbn [idx s']. destruct (Nat.eq_dec k' k) as [->|Hne].
      - rewrite upd_same, Ek. apply Hnew.
      - rewrite upd_other by exact Hne. destruct (idx s k') as [loc|] eqn:Ei; [|reflexivity]. apply Hval. apply (J1 k' loc Ei). }
    split; [|exact Hg]. unfold J. cbn [files idx readers mph s'].
    split.
    { intros k' loc Hk'. destruct (Nat.eq_dec k' k) as [->|Hne]; [rewrite upd_same in Hk'; inversion Hk'; subst; apply Hnew|].
      rewrite upd_other in Hk' by exact Hne. apply Hval. apply (J1 k' loc Hk'). }
    split.
    { intros u k' loc c Hu. destruct (J2 u k' loc c Hu) as (Ht & Hl & Hc). split; [exact Ht|].
      assert (Hne : k' <> k).
      { intros ->. pose proof (guard_free_spec s k Eg u Ht) as Hgf. rewrite Hu in Hgf. cbn in Hgf. rewrite Nat.eqb_refl in Hgf. discriminate. }
      rewrite upd_other by exact Hne. split; [exact Hl|]. rewrite Hc. symmetry. apply Hg. }
    split; [intros u k' v c Hu; destruct (J3 u k' v c Hu) as [Hv Hc]; split; [exact Hv|rewrite Hc; symmetry; apply Hg]|]. split; [exact J4|].
    split; [rewrite upd_same; discriminate|]. split; [exact Hnot|].
    intros k' f' p' Hk' Hin. destruct (Nat.eq_dec k' k) as [->|Hne].
    + rewrite upd_same in Hk'. inversion Hk'; subst. contradiction.
    + rewrite upd_other in Hk' by exact Hne. destruct (Hcover k' f' p' Hk' Hin) as [E|H']; [congruence|exact H'].
  - (* all entries of the selected files have been re-pointed *)
    destruct (mph s) as [|todo sel mid| |] eqn:Ep; try discriminate. destruct todo; [|discriminate]. inversion H; subst; clear H.
    destruct J5 as (_ & _ & Hcover). split; [|reflexivity]. unfold J. cbn [files idx readers mph].
    split; [exact J1|]. split; [exact J2|]. split; [exact J3|]. split; [exact J4|]. intros k f p Hk Hin. exact (Hcover k f p Hk Hin).
  - (* unlink of a selected file: no index entry points into it any more *)
    destruct (mph s) as [| |sel|] eqn:Ep; try discriminate. destruct sel as [|f sel]; [discriminate|]. inversion H; subst; clear H.
    set (s' := mkMS (upd (files s) f None) (idx s) (readers s) (MUnlinking sel)).
    assert (Hval : forall k loc, idx s k = Some loc -> valid_loc s' loc /\ value_at s' loc = value_at s loc).
    { intros k [g p] Hk. assert (g <> f) by (intros ->; exact (J5 k f p Hk (or_introl eq_refl))).
      destruct (J1 k _ Hk) as (recs & Hf & Hlt). cbn [fst snd] in *. split; [exists recs; cbn [fst snd files s']; rewrite upd_other by assumption; auto|].
      unfold value_at. cbn [fst snd files s']. rewrite upd_other by assumption. reflexivity. }
    assert (Hg : forall k, gmap s' k = gmap s k).
    { intros k. unfold gmap. cbn [idx s']. destruct (idx s k) as [loc|] eqn:Ei; [|reflexivity]. apply (Hval k loc Ei). }
    split; [|exact Hg]. unfold J. cbn [files idx readers mph s'].
    split; [intros k loc Hk; apply (Hval k loc Hk)|]. split.
    { intros u k loc c Hu. destruct (J2 u k loc c Hu) as (Ht & Hl & Hc). split; [exact Ht|]. split; [exact Hl|]. rewrite Hc. symmetry. apply Hg. }
    split; [intros u k v c Hu; destruct (J3 u k v c Hu) as [Hv Hc]; split; [exact Hv|rewrite Hc; symmetry; apply Hg]|]. split; [exact J4|]. intros k g p Hk Hin. apply (J5 k g p Hk). right. exact Hin.
  - destruct (mph s) as [| |sel|] eqn:Ep; try discriminate. destruct sel; [|discriminate]. inversion H; subst; clear H. split; [|reflexivity].
    unfold J. cbn [files idx readers mph]. auto.
Qed.

Theorem run_J : forall es s s', J s -> run_ok s es -> run s es = Some s' -> J s' /\ forall k, gmap s' k = gmap s k.
Proof.
  induction es as [|e es IH]; intros s s' HJ Hok H; cbn [mrun run_ok] in *; [inversion H; subst; auto|].
  destruct Hok as [Hc Hok]. destruct (step s e) as [s1|] eqn:E; [|discriminate].
  destruct (step_J s e s1 HJ Hc E) as [HJ1 Hg1]. destruct (IH s1 s' HJ1 Hok H) as [HJ' Hg']. split; [exact HJ'|]. intros k. rewrite Hg', Hg1. reflexivity.
Qed.

(* C04 against a merge pass: for every schedule, no get reads from an unlinked file, every get returns
   the value of the abstract map at its lookup, and the abstract map never changes *)
Theorem merge_vs_gets es s s' : J s -> run_ok s es -> run s es = Some s' ->
  (forall t, readers s' t <> RFailed) /\
  (forall t k v c, readers s' t = RDone k v c -> v = gmap s k) /\
  (forall k, gmap s' k = gmap s k).
Proof.
  intros HJ Hok H. destruct (run_J es s s' HJ Hok H) as [(_ & J2 & J3 & J4 & _) Hg]. split; [exact J4|]. split; [|exact Hg].
  intros t k v c Hd. destruct (J3 t k v c Hd) as [-> ->]. apply Hg.
Qed.
End Safe.

(* a quiescent state with valid index entries satisfies the invariant *)
Lemma J_init T s : (forall k loc, idx s k = Some loc -> valid_loc s loc) -> (forall t, readers s t = RIdle) -> mph s = MIdle -> J T s.
Proof.
  intros H1 H2 H3. unfold J. rewrite H3. split; [exact H1|]. split; [intros t k loc c E; rewrite H2 in E; discriminate|].
  split; [intros t k v c E; rewrite H2 in E; discriminate|]. split; [intros t E; rewrite H2 in E; discriminate|exact I].
Qed.

(* the guard is what makes it work: if a reader drops it after the lookup (seeded change C04-A), the
   merge re-points and unlinks under its feet *)
Definition demo_state : mst :=
  mkMS (fun f => if Nat.eqb f 0 then Some [mkMRec 1 7] else None) (fun k => if Nat.eqb k 1 then Some (0, 0) else None) (fun _ => RIdle) MIdle.
Definition demo_schedule : list mev := [RLookup 0 1; MStart [0] [1] 5; MCopy; MCopyEnd; MUnlink; RRead 0].

Example unguarded_reader_fails : exists s, mrun 1 false demo_state demo_schedule = Some s /\ readers s 0 = RFailed.
Proof. eexists. split; [vm_compute; reflexivity|reflexivity]. Qed.

Example guarded_merge_waits : mrun 1 true demo_state [RLookup 0 1; MStart [0] [1] 5; MCopy] = None /\
  exists s, mrun 1 true demo_state [RLookup 0 1; MStart [0] [1] 5; RRead 0; MCopy; MCopyEnd; MUnlink; MEnd; RReturn 0; RLookup 0 1; RRead 0] = Some s /\
            readers s 0 = RDone 1 (Some 7) (Some 7) /\ files s 0 = None.
Proof. split; [vm_compute; reflexivity|]. eexists. split; [vm_compute; reflexivity|]. split; reflexivity. Qed.
