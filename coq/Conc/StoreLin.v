(* Conc/StoreLin.v — every schedule of the interleaving model (repaired remap rule) is linearizable:
   the instrumented history (invoke; commit = KeyDir publish for put/del, KeyDir lookup for get;
   return) is accepted by the commit-point monitor of Conc/Lin.v for the sequential map
   specification, hence by [commit_order_linearizes] the commit order explains every result and
   respects real time. *)
From Coq Require Import List Arith Lia Bool.
Import ListNotations.
From BC Require Import Conc.Lin Conc.StoreLTS Conc.StoreSafe.

Definition gstate := key -> option val.
Definition is_some {A} (x : option A) : bool := match x with Some _ => true | None => false end.

Definition mspec (g : gstate) (o : opn) : gstate * result :=
  match o with
  | OpPut k v _ => (upd g k (Some v), RUnit)
  | OpGet k => (g, RVal (g k))
  | OpDel k _ => (upd g k None, RBool (is_some (g k)))
  end.

Definition opt_eqb (a b : option val) : bool :=
  match a, b with Some x, Some y => Nat.eqb x y | None, None => true | _, _ => false end.
Definition res_eqb (a b : result) : bool :=
  match a, b with
  | RUnit, RUnit => true
  | RVal x, RVal y => opt_eqb x y
  | RBool x, RBool y => Bool.eqb x y
  | _, _ => false
  end.
Lemma res_eqb_true a b : res_eqb a b = true -> a = b.
Proof.
  destruct a as [|[x|]|x], b as [|[y|]|y]; cbn; intros H; try discriminate; try reflexivity.
  - apply Nat.eqb_eq in H. subst. reflexivity.
  - apply Bool.eqb_prop in H. subst. reflexivity.
Qed.
Lemma res_eqb_refl a : res_eqb a a = true.
Proof. destruct a as [|[x|]|x]; cbn; auto using Nat.eqb_refl, Bool.eqb_reflx. Qed.

Notation mon := (mon gstate opn result).
Notation mstep := (mstep gstate opn result mspec res_eqb).
Notation mrun := (mrun gstate opn result mspec res_eqb).
Notation minit := (minit gstate opn result).
Notation IInv := (IInv opn result).
Notation ICommit := (ICommit opn result).
Notation IRet := (IRet opn result).

(* the visible/instrumented events of a model step, given the state it is taken from *)
Definition project1 (s : lst) (e : lev) : list (iev opn result) :=
  match e with
  | EInvoke t o => [IInv t o]
  | EPublish t => [ICommit t]
  | ELookup t => [ICommit t]
  | EReturn t => match thr s t with
                 | PWUnlocked r => [IRet t r]
                 | PGDone r => [IRet t (RVal r)]
                 | _ => []
                 end
  | _ => []
  end.

Fixpoint project (s : lst) (es : list lev) : list (iev opn result) :=
  match es with
  | [] => []
  | e :: es' => project1 s e ++ match lstep rule_fixed s e with Some s' => project s' es' | None => [] end
  end.

(* the simulation relation *)
Definition pc_status (p : pc) (st : tstatus opn result) : Prop :=
  match p with
  | PIdle => st = Idle _ _
  | PWWait o | PWLocked o | PWWriting o | PWWritten o _ => (exists id, st = Pending _ _ id o) /\ (forall k, o <> OpGet k)
  | PWPublished r | PWUnlocked r => exists id o, st = Committed _ _ id o r
  | PGWait k | PGHave k _ => exists id, st = Pending _ _ id (OpGet k)
  | PGLooked _ _ _ r | PGRemapped _ _ _ r | PGRead _ r | PGDone r => exists id o, st = Committed _ _ id o (RVal r)
  | PPanicked => False
  end.

Definition idx_ok (s : lst) : Prop :=
  forall k, match index s k with
            | Some (pos, len) => exists rc, rec_at (data s) pos = Some rc /\ rv rc = gmap s k /\ gmap s k <> None
            | None => gmap s k = None
            end.

Definition sim (s : lst) (m : mon) : Prop :=
  ghost _ _ _ m = gmap s /\ (forall t, pc_status (thr s t) (status _ _ _ m t)) /\ idx_ok s.

Lemma mrun_app (m : mon) a b : mrun m (a ++ b) = match mrun m a with Some m' => mrun m' b | None => None end.
Proof. revert m. induction a as [|e a IH]; intros m; cbn [app Lin.mrun]; [reflexivity|]. destruct (mstep m e); [apply IH|reflexivity]. Qed.

Lemma status_upd (f : nat -> tstatus opn result) t x u : set_status _ _ f t x u = if Nat.eqb u t then x else f u.
Proof. reflexivity. Qed.

(* a step that does not touch the monitor: the thread's new pc has the same status *)
Lemma sim_silent s m t p' s' :
  sim s m -> thr s' = upd (thr s) t p' -> gmap s' = gmap s ->
  pc_status p' (status _ _ _ m t) -> idx_ok s' -> sim s' m.
Proof.
  intros (Hg & Hs & Hi) Et Eg Hp Hi'. unfold sim. rewrite Eg. split; [exact Hg|]. split; [|exact Hi'].
  intros u. rewrite Et. unfold upd. destruct (Nat.eqb u t) eqn:E; [apply Nat.eqb_eq in E; subst; exact Hp|apply Hs].
Qed.

Lemma idx_ok_same s s' : data s' = data s -> index s' = index s -> gmap s' = gmap s -> idx_ok s -> idx_ok s'.
Proof. intros E1 E2 E3 H k. specialize (H k). rewrite E1, E2, E3. exact H. Qed.

Lemma step_sim s m e s' : safe s -> sim s m -> lstep rule_fixed s e = Some s' ->
  exists m', mrun m (project1 s e) = Some m' /\ sim s' m'.
Proof.
  intros HS HR E. pose proof HR as (Hg & Hs & Hi). pose proof HS as (Hd & Hgi & Ht & Hp & Hm & Hk).
  destruct e as [t o|t|t|t n|t|t|t|t|t|t|t|t|t]; unfold lstep in E; cbn [project1].
  - (* invoke *)
    destruct (thr s t) eqn:Et; try discriminate. destruct (wf_op o) eqn:Ewf; [|discriminate]. inversion E; subst; clear E.
    pose proof (Hs t) as Hst. rewrite Et in Hst. cbn in Hst.
    cbn [Lin.mrun Lin.mstep]. rewrite Hst. eexists. split; [reflexivity|].
    unfold sim, set_thr. cbn [ghost status gmap thr data index]. split; [exact Hg|]. split; [|exact Hi].
    intros u. rewrite status_upd. unfold upd. destruct (Nat.eqb u t); [|apply Hs].
    destruct o; cbn; eauto; (split; [eauto|intros; discriminate]).
  - (* lock *)
    destruct (thr s t) eqn:Et; try discriminate. destruct (wlock s); try discriminate. inversion E; subst; clear E.
    exists m. split; [reflexivity|]. pose proof (Hs t) as Hst. rewrite Et in Hst.
    eapply (sim_silent s m t); [exact HR|reflexivity|reflexivity|exact Hst|exact Hi].
  - (* begin *)
    destruct (thr s t) eqn:Et; try discriminate. destruct (partial s); try discriminate.
    destruct (Nat.ltb 0 (rlen (rec_of o))); [|discriminate]. inversion E; subst; clear E.
    exists m. split; [reflexivity|]. pose proof (Hs t) as Hst. rewrite Et in Hst.
    eapply (sim_silent s m t); [exact HR|reflexivity|reflexivity|exact Hst|exact Hi].
  - (* grow *)
    destruct (thr s t) eqn:Et; try discriminate. destruct (partial s) as [[r m0]|]; try discriminate.
    destruct (Nat.leb (m0 + n) (rlen r)); [|discriminate]. inversion E; subst; clear E.
    exists m. split; [reflexivity|]. unfold sim. cbn [gmap thr]. split; [exact Hg|]. split; [exact Hs|exact Hi].
  - (* finish *)
    destruct (thr s t) eqn:Et; try discriminate. destruct (partial s) as [[r m0]|]; try discriminate.
    destruct (Nat.eqb m0 (rlen r)); [|discriminate]. inversion E; subst; clear E.
    exists m. split; [reflexivity|]. pose proof (Hs t) as Hst. rewrite Et in Hst.
    eapply (sim_silent s m t); [exact HR|reflexivity|reflexivity|exact Hst|].
    intros k. specialize (Hi k). cbn [index data gmap]. destruct (index s k) as [[pos len]|]; [|exact Hi].
    destruct Hi as (rc & H1 & H2). exists rc. split; [apply rec_at_app; exact H1|exact H2].
  - (* publish = commit of put / del *)
    destruct (thr s t) as [| | | |o pos| | | | | | | | |] eqn:Et; try discriminate.
    pose proof (Hs t) as Hst. rewrite Et in Hst. destruct Hst as [(id & Hst) Hng].
    pose proof (Ht t) as Hrec. rewrite Et in Hrec. cbn [thread_ok] in Hrec.
    destruct o as [k v len|k|k len]; try discriminate; inversion E; subst; clear E;
      cbn [Lin.mrun Lin.mstep]; rewrite Hst; cbn [mspec]; eexists; (split; [reflexivity|]);
      unfold sim; cbn [ghost status gmap thr data index]; rewrite Hg.
    + split; [reflexivity|]. split.
      * intros u. rewrite status_upd. unfold upd at 1. destruct (Nat.eqb u t); [cbn; eauto|apply Hs].
      * unfold idx_ok. cbn [data index gmap]. intros k0. unfold upd. destruct (Nat.eqb k0 k) eqn:Ek; [|apply Hi].
        exists (rec_of (OpPut k v len)). split; [exact Hrec|]. cbn. split; [reflexivity|discriminate].
    + split; [reflexivity|]. split.
      * intros u. rewrite status_upd. unfold upd at 1. destruct (Nat.eqb u t); [|apply Hs].
        cbn. specialize (Hi k). destruct (index s k) as [[p l]|].
        -- destruct Hi as (rc & _ & _ & Hne). destruct (gmap s k); [eauto|contradiction].
        -- rewrite Hi. eauto.
      * unfold idx_ok. cbn [data index gmap]. intros k0. unfold upd. destruct (Nat.eqb k0 k) eqn:Ek; [reflexivity|apply Hi].
  - (* unlock *)
    destruct (thr s t) eqn:Et; try discriminate. inversion E; subst; clear E.
    exists m. split; [reflexivity|]. pose proof (Hs t) as Hst. rewrite Et in Hst.
    eapply (sim_silent s m t); [exact HR|reflexivity|reflexivity|exact Hst|exact Hi].
  - (* checkout *)
    destruct (thr s t) eqn:Et; try discriminate. destruct (pool s); try discriminate. inversion E; subst; clear E.
    exists m. split; [reflexivity|]. pose proof (Hs t) as Hst. rewrite Et in Hst.
    eapply (sim_silent s m t); [exact HR|reflexivity|reflexivity|exact Hst|exact Hi].
  - (* lookup = commit of get *)
    destruct (thr s t) eqn:Et; try discriminate. inversion E; subst; clear E.
    pose proof (Hs t) as Hst. rewrite Et in Hst. destruct Hst as (id & Hst).
    cbn [Lin.mrun Lin.mstep]. rewrite Hst. cbn [mspec]. eexists. split; [reflexivity|].
    unfold sim, set_thr. cbn [ghost status gmap thr data index]. split; [exact Hg|]. split; [|exact Hi].
    intros u. rewrite status_upd. unfold upd. destruct (Nat.eqb u t); [|apply Hs].
    cbn. rewrite Hg. specialize (Hi k). destruct (index s k) as [[pos len]|].
    + destruct Hi as (rc & H1 & H2 & _). rewrite H1, H2. eauto.
    + rewrite Hi. eauto.
  - (* remap *)
    destruct (thr s t) as [| | | | | | | | |k ml loc r| | | |] eqn:Et; try discriminate.
    pose proof (Hs t) as Hst. rewrite Et in Hst.
    destruct loc as [[pos len]|]; inversion E; subst; clear E; exists m; (split; [reflexivity|]);
      eapply (sim_silent s m t); try exact HR; try reflexivity; try exact Hst; exact Hi.
  - (* slice *)
    destruct (thr s t) as [| | | | | | | | | |k ml loc r| | |] eqn:Et; try discriminate. destruct loc as [pos len].
    pose proof (Hs t) as Hst. rewrite Et in Hst.
    assert (Hfit : pos + len <= ml) by (specialize (Ht t); rewrite Et in Ht; cbn in Ht; tauto).
    replace (Nat.leb (pos + len) ml) with true in E by (symmetry; apply Nat.leb_le; exact Hfit).
    inversion E; subst; clear E. exists m. split; [reflexivity|].
    eapply (sim_silent s m t); try exact HR; try reflexivity; try exact Hst; exact Hi.
  - (* checkin *)
    destruct (thr s t) eqn:Et; try discriminate. inversion E; subst; clear E.
    exists m. split; [reflexivity|]. pose proof (Hs t) as Hst. rewrite Et in Hst.
    eapply (sim_silent s m t); [exact HR|reflexivity|reflexivity|exact Hst|exact Hi].
  - (* return *)
    pose proof (Hs t) as Hst.
    destruct (thr s t) eqn:Et; try discriminate; inversion E; subst; clear E; destruct Hst as (id & o & Hst);
      cbn [Lin.mrun Lin.mstep]; rewrite Hst, res_eqb_refl; eexists; (split; [reflexivity|]);
      unfold sim, set_thr; cbn [ghost status gmap thr data index]; (split; [exact Hg|]); (split; [|exact Hi]);
      intros u; rewrite status_upd; unfold upd; (destruct (Nat.eqb u t); [reflexivity|apply Hs]).
Qed.

Lemma sim_init cap : sim (linit cap) (minit (fun _ => None)).
Proof.
  unfold sim, linit, Lin.minit. cbn [ghost status gmap thr data index]. split; [reflexivity|]. split.
  - intros t. reflexivity.
  - intros k. reflexivity.
Qed.

Theorem run_sim : forall es s m s', safe s -> sim s m -> lrun rule_fixed s es = Some s' ->
  exists m', mrun m (project s es) = Some m' /\ sim s' m'.
Proof.
  induction es as [|e es IH]; intros s m s' HS HR E; cbn [lrun project] in *.
  - inversion E; subst. exists m. split; [reflexivity|exact HR].
  - destruct (lstep rule_fixed s e) as [s1|] eqn:E1; [|discriminate].
    destruct (step_sim s m e s1 HS HR E1) as (m1 & Hm1 & HR1).
    destruct (IH s1 m1 s' (step_safe _ _ _ HS E1) HR1 E) as (m' & Hm' & HR').
    exists m'. split; [|exact HR']. rewrite mrun_app, Hm1. exact Hm'.
Qed.

(* C04 / C11 in the model: for EVERY schedule [es] that the interleaving model can execute — any
   number of threads, preemption between any two steps, a record's bytes appearing in the file in any
   increments — the instrumented history is accepted by the monitor, therefore ([commit_order_linearizes])
   the commit order is a sequential execution of the map specification that reproduces every result,
   contains every completed operation and respects real time; and the final abstract map is the one the
   index denotes. *)
Theorem every_schedule_linearizable cap es s :
  lrun rule_fixed (linit cap) es = Some s ->
  exists m, mrun (minit (fun _ => None)) (project (linit cap) es) = Some m /\
    ghost _ _ _ m = gmap s /\
    replay _ _ _ mspec res_eqb (fun _ => None) (lin _ _ _ m) = (gmap s, true) /\
    (forall id, In id (returned _ _ _ m) -> In id (ids_of _ _ (lin _ _ _ m))) /\
    (forall id rs a l1 l2, In (id, rs) (before _ _ _ m) -> In a rs -> ids_of _ _ (lin _ _ _ m) = l1 ++ id :: l2 -> In a l1).
Proof.
  intros E. destruct (run_sim es _ _ _ (init_safe cap) (sim_init cap) E) as (m & Hm & (Hg & _ & _)).
  exists m. split; [exact Hm|]. split; [exact Hg|].
  destruct (commit_order_linearizes _ _ _ mspec res_eqb res_eqb_refl _ _ _ Hm) as (H1 & H2 & H3).
  rewrite <- Hg. auto.
Qed.
