(* Conc/Lin.v — linearizability from commit points, once and for all.
   An instrumented execution is a sequence of events of threads: an operation is invoked, at some
   later instant it COMMITS (it takes effect atomically on a ghost copy of the sequential
   specification, which computes its result), later still it returns that result.  We prove that
   the history of invocations and returns of any such execution is linearizable: the order of the
   commits is a witness that explains every result and respects real time. *)
From Coq Require Import List Arith Lia Bool.
Import ListNotations.

Section Lin.
Variables (S O R : Type).
Variable spec : S -> O -> S * R.
Variable Req : R -> R -> bool.
Hypothesis Req_true : forall a b, Req a b = true -> a = b.

Inductive iev := IInv (t : nat) (o : O) | ICommit (t : nat) | IRet (t : nat) (r : R).

Inductive tstatus := Idle | Pending (id : nat) (o : O) | Committed (id : nat) (o : O) (r : R).

(* the monitor: ghost state, per-thread status, operations committed so far (id, op, result) in
   commit order, ids of operations that have returned, and for each invoked operation the operations
   that had already returned when it was invoked; the id of an operation = position of its invocation *)
Record mon := mkMon {
  ghost : S;
  status : nat -> tstatus;
  lin : list (nat * O * R);
  returned : list nat;
  before : list (nat * list nat);
  clock : nat
}.

Definition set_status (f : nat -> tstatus) (t : nat) (x : tstatus) : nat -> tstatus :=
  fun u => if Nat.eqb u t then x else f u.

Definition mstep (m : mon) (e : iev) : option mon :=
  match e with
  | IInv t o =>
    match status m t with
    | Idle => Some (mkMon (ghost m) (set_status (status m) t (Pending (clock m) o)) (lin m) (returned m)
                          ((clock m, returned m) :: before m) (Datatypes.S (clock m)))
    | _ => None
    end
  | ICommit t =>
    match status m t with
    | Pending id o =>
      let '(s', r) := spec (ghost m) o in
      Some (mkMon s' (set_status (status m) t (Committed id o r)) (lin m ++ [(id, o, r)]) (returned m) (before m) (Datatypes.S (clock m)))
    | _ => None
    end
  | IRet t r =>
    match status m t with
    | Committed id o r' =>
      if Req r r' then Some (mkMon (ghost m) (set_status (status m) t Idle) (lin m) (returned m ++ [id]) (before m) (Datatypes.S (clock m)))
      else None
    | _ => None
    end
  end.

Fixpoint mrun (m : mon) (es : list iev) : option mon :=
  match es with [] => Some m | e :: es' => match mstep m e with Some m' => mrun m' es' | None => None end end.

Definition minit (s0 : S) : mon := mkMon s0 (fun _ => Idle) [] [] [] 0.

(* replaying the committed operations sequentially from [s]: final state, and whether every recorded
   result is the one the specification computes *)
Fixpoint replay (s : S) (l : list (nat * O * R)) : S * bool :=
  match l with
  | [] => (s, true)
  | (_, o, r) :: l' => let '(s', r') := spec s o in let '(sf, ok) := replay s' l' in (sf, Req r r' && ok)
  end.

Lemma replay_app s l1 l2 : replay s (l1 ++ l2) =
  let '(s1, ok1) := replay s l1 in let '(s2, ok2) := replay s1 l2 in (s2, ok1 && ok2).
Proof.
  revert s. induction l1 as [|[[i o] r] l1 IH]; intros s; cbn [app replay].
  - destruct (replay s l2). reflexivity.
  - destruct (spec s o) as [s' r']. rewrite IH. destruct (replay s' l1) as [s1 ok1]. destruct (replay s1 l2) as [s2 ok2].
    rewrite andb_assoc. reflexivity.
Qed.

Hypothesis Req_refl : forall a, Req a a = true.

Definition ids_of (l : list (nat * O * R)) : list nat := map (fun x => fst (fst x)) l.
Lemma ids_of_app l1 l2 : ids_of (l1 ++ l2) = ids_of l1 ++ ids_of l2.
Proof. unfold ids_of. apply map_app. Qed.

Definition minv (s0 : S) (m : mon) : Prop :=
  (* (a) the ghost state is the sequential execution of the committed operations, and that execution
         computes exactly the recorded results *)
  replay s0 (lin m) = (ghost m, true) /\
  (* (b) every operation that has returned is committed; a committed, not yet returned operation is in the order *)
  (forall id, In id (returned m) -> In id (ids_of (lin m))) /\
  (forall t id o r, status m t = Committed id o r -> In (id, o, r) (lin m)) /\
  (* (c) real time: whatever had returned when an operation was invoked is committed, and comes
         earlier in the commit order than that operation *)
  (forall id rs a, In (id, rs) (before m) -> In a rs -> In a (ids_of (lin m))) /\
  (forall id rs a l1 l2, In (id, rs) (before m) -> In a rs -> ids_of (lin m) = l1 ++ id :: l2 -> In a l1) /\
  (* (d) ids are invocation instants in the past *)
  (forall id, In id (ids_of (lin m)) -> id < clock m) /\
  (forall t id o, status m t = Pending id o -> id < clock m).

Lemma minv_init s0 : minv s0 (minit s0).
Proof. unfold minv, minit. cbn. repeat split; try (intros; contradiction); try discriminate. Qed.

Lemma snoc_decomp {A} (l1 l2 old : list A) (x y : A) : l1 ++ y :: l2 = old ++ [x] ->
  (exists l2', l2 = l2' ++ [x] /\ old = l1 ++ y :: l2') \/ (l2 = [] /\ y = x /\ l1 = old).
Proof.
  intros H. destruct l2 as [|z l2'].
  - right. apply app_inj_tail in H as [H1 H2]. auto.
  - left. destruct (@exists_last _ (z :: l2') ltac:(discriminate)) as (f2 & l & E2). rewrite E2 in H.
    assert (H' : (l1 ++ y :: f2) ++ [l] = old ++ [x]) by (rewrite <- app_assoc; exact H).
    apply app_inj_tail in H' as [H1 H2]. subst l. exists f2. split; [exact E2|symmetry; exact H1].
Qed.

Lemma mstep_inv s0 m e m' : minv s0 m -> mstep m e = Some m' -> minv s0 m'.
Proof.
  intros (Ha & Hb & Hq & Hg & Hf & Hc & Hp) E. unfold mstep in E. destruct e as [t o|t|t r].
  - destruct (status m t) eqn:Es; try discriminate. inversion E; subst. unfold minv. cbn [ghost status lin returned before clock].
    split; [exact Ha|]. split; [exact Hb|]. split.
    { intros t0 id o0 r0 H. unfold set_status in H. destruct (Nat.eqb t0 t); [discriminate|eauto]. }
    split.
    { intros id rs a [Hin|Hin] Ha'; [inversion Hin; subst; auto|eauto]. }
    split.
    { intros id rs a l1 l2 [Hin|Hin] Ha' El; [|eauto]. inversion Hin; subst. exfalso.
      assert (Hid : In (clock m) (ids_of (lin m))) by (rewrite El; apply in_or_app; right; left; reflexivity).
      specialize (Hc _ Hid). lia. }
    split.
    { intros id Hin. specialize (Hc id Hin). lia. }
    intros t0 id o0 H. unfold set_status in H. destruct (Nat.eqb t0 t); [inversion H; subst; lia|]. specialize (Hp t0 id o0 H). lia.
  - destruct (status m t) as [|id o|] eqn:Es; try discriminate. destruct (spec (ghost m) o) as [s' r] eqn:Esp.
    inversion E; subst. unfold minv. cbn [ghost status lin returned before clock]. split.
    { rewrite replay_app, Ha. cbn [replay]. rewrite Esp, Req_refl. reflexivity. }
    split.
    { intros id0 Hin. rewrite ids_of_app. apply in_or_app. left. auto. }
    split.
    { intros t0 id0 o0 r0 H. unfold set_status in H. apply in_or_app.
      destruct (Nat.eqb t0 t); [inversion H; subst; right; left; reflexivity|left; eauto]. }
    split.
    { intros id0 rs a Hin Ha'. rewrite ids_of_app. apply in_or_app. left. eauto. }
    split.
    { intros id0 rs a l1 l2 Hin Ha' El. rewrite ids_of_app in El. cbn [ids_of map fst] in El.
      symmetry in El. apply snoc_decomp in El as [(l2' & _ & Eold)|(_ & _ & El1)]; [eauto|]. subst l1. eauto. }
    split.
    { intros id0 Hin. rewrite ids_of_app in Hin. apply in_app_or in Hin as [Hin|[<-|[]]]; [specialize (Hc _ Hin); lia|].
      specialize (Hp t id o Es). cbn. lia. }
    intros t0 id0 o0 H. unfold set_status in H. destruct (Nat.eqb t0 t); [discriminate|]. specialize (Hp t0 id0 o0 H). lia.
  - destruct (status m t) as [| |id o r'] eqn:Es; try discriminate. destruct (Req r r'); [|discriminate].
    inversion E; subst. unfold minv. cbn [ghost status lin returned before clock].
    split; [exact Ha|]. split.
    { intros id0 Hin. apply in_app_or in Hin as [Hin|[<-|[]]]; [auto|].
      specialize (Hq t id o r' Es). unfold ids_of. apply in_map_iff. exists (id, o, r'). auto. }
    split.
    { intros t0 id0 o0 r0 H. unfold set_status in H. destruct (Nat.eqb t0 t); [discriminate|eauto]. }
    split; [exact Hg|]. split; [exact Hf|]. split.
    { intros id0 Hin. specialize (Hc _ Hin). lia. }
    intros t0 id0 o0 H. unfold set_status in H. destruct (Nat.eqb t0 t); [discriminate|]. specialize (Hp t0 id0 o0 H). lia.
Qed.

Theorem mrun_inv s0 : forall es m m', minv s0 m -> mrun m es = Some m' -> minv s0 m'.
Proof.
  induction es as [|e es IH]; intros m m' H E; cbn [mrun] in E; [inversion E; subst; exact H|].
  destruct (mstep m e) as [m1|] eqn:E1; [|discriminate]. eapply IH; [eapply mstep_inv; eassumption|exact E].
Qed.

(* Linearizability: for every execution the monitor accepts — i.e. every operation returns the result
   computed at its commit point — the commit order [lin] is a sequential execution of the specification
   (from the initial state, reproducing every result), contains every operation that has returned, and
   orders an operation after every operation that had returned before it was invoked. *)
Theorem commit_order_linearizes s0 es m : mrun (minit s0) es = Some m ->
  replay s0 (lin m) = (ghost m, true) /\
  (forall id, In id (returned m) -> In id (ids_of (lin m))) /\
  (forall id rs a l1 l2, In (id, rs) (before m) -> In a rs -> ids_of (lin m) = l1 ++ id :: l2 -> In a l1).
Proof.
  intros E. destruct (mrun_inv s0 es _ _ (minv_init s0) E) as (Ha & Hb & _ & _ & Hf & _). auto.
Qed.
End Lin.
