(* Conc/RollSafe.v — every schedule of Conc/RollLTS.v is safe: no reader finds a file missing or a record
   outside its mapping, and every get returns the value the abstract map held at its lookup. *)
From Coq Require Import List Arith Lia Bool.
Import ListNotations.
From BC Require Import Conc.RollLTS.

Definition has (fl : fid -> option (list rrec)) (f p : nat) (v : option val) : Prop :=
  exists recs, fl f = Some recs /\ p < length recs /\ v = match nth_error recs p with Some r => rv r | None => None end.
Definition covered (fl : fid -> option (list rrec)) (f n : nat) : Prop :=
  exists recs, fl f = Some recs /\ n <= length recs.
Definition ext (fl fl' : fid -> option (list rrec)) : Prop :=
  forall f recs, fl f = Some recs -> exists more, fl' f = Some (recs ++ more).

Lemma ext_refl fl : ext fl fl.
Proof. intros f recs H. exists []. now rewrite app_nil_r. Qed.

Lemma has_ext fl fl' f p v : ext fl fl' -> has fl f p v -> has fl' f p v.
Proof.
  intros He (recs & Hf & Hp & Hv). destruct (He _ _ Hf) as (more & Hf').
  exists (recs ++ more). split; [exact Hf'|]. split; [rewrite app_length; lia|].
  now rewrite nth_error_app1.
Qed.

Lemma covered_ext fl fl' f n : ext fl fl' -> covered fl f n -> covered fl' f n.
Proof.
  intros He (recs & Hf & Hn). destruct (He _ _ Hf) as (more & Hf').
  exists (recs ++ more). split; [exact Hf'|]. rewrite app_length; lia.
Qed.

Record RI (s : rst) : Prop := mkRI {
  ri_idx : forall k f p, ridx s k = Some (f, p) -> exists v, has (rfiles s) f p (Some v);      (* index entries point at put records *)
  ri_wr : forall k f p, wstate s = WAppended k (f, p) -> exists v, has (rfiles s) f p (Some v);
  ri_look : forall t k f p c, rreaders s t = GLooked k (Some (f, p)) c -> has (rfiles s) f p c;
  ri_miss : forall t k c, rreaders s t = GLooked k None c -> c = None;
  ri_maps : forall t f n, rmaps s t f = Some n -> covered (rfiles s) f n;
  ri_done : forall t k v c, rreaders s t = GDone k v c -> v = c;
  ri_nofail : forall t, rreaders s t <> GFailed;
  ri_active : rfiles s (ractive s) <> None;
  ri_above : forall f, ractive s < f -> rfiles s f = None
}.

Lemma upd_same {A} (f : nat -> A) t x : upd f t x t = x.
Proof. unfold upd. now rewrite Nat.eqb_refl. Qed.
Lemma upd_other {A} (f : nat -> A) t u x : u <> t -> upd f t x u = f u.
Proof. intros H. unfold upd. destruct (Nat.eqb_spec u t); congruence. Qed.

Lemma ext_append fl a recs r : fl a = Some recs -> ext fl (upd fl a (Some (recs ++ [r]))).
Proof.
  intros Ha f rs Hf. destruct (Nat.eq_dec f a) as [->|Hne].
  - rewrite upd_same. rewrite Ha in Hf. injection Hf as <-. now exists [r].
  - rewrite upd_other by exact Hne. exists []. now rewrite app_nil_r.
Qed.

Lemma ext_create fl a : fl a = None -> ext fl (upd fl a (Some [])).
Proof.
  intros Ha f rs Hf. destruct (Nat.eq_dec f a) as [->|Hne]; [congruence|].
  rewrite upd_other by exact Hne. exists []. now rewrite app_nil_r.
Qed.

Lemma ri_init : RI rinit.
Proof.
  constructor; cbn; try discriminate; try congruence.
  intros f Hf. destruct (Nat.eqb_spec f 0); [lia|reflexivity].
Qed.

Lemma rvalue_has s (f : fid) p v : has (rfiles s) f p v -> rvalue_at s (f, p) = v.
Proof. intros (recs & Hf & _ & ->). unfold rvalue_at; cbn. now rewrite Hf. Qed.

Theorem step_RI s e s' : RI s -> rstep true s e = Some s' -> RI s'.
Proof.
  intros I H. destruct e as [k v|k| | | |t k|t|t]; cbn [rstep] in H.
  - (* append *)
    destruct (wstate s) eqn:Hw; try discriminate. destruct (rfiles s (ractive s)) as [recs|] eqn:Ha; [|discriminate].
    injection H as <-.
    pose proof (ext_append _ _ _ (mkRRec k (Some v)) Ha) as He.
    constructor; cbn.
    + intros k0 f p Hi. destruct (ri_idx _ I _ _ _ Hi) as (v0 & Hh). exists v0. eapply has_ext; eassumption.
    + intros k0 f p Heq. injection Heq as <- <- <-. exists v. exists (recs ++ [mkRRec k (Some v)]).
      rewrite upd_same. split; [reflexivity|]. split; [rewrite app_length; cbn; lia|].
      rewrite nth_error_app2 by lia. now rewrite Nat.sub_diag.
    + intros t k0 f p c Hr. eapply has_ext; [exact He|]. eapply ri_look; eassumption.
    + intros t k0 c Hr. eapply ri_miss; eassumption.
    + intros t f n Hm. eapply covered_ext; [exact He|]. eapply ri_maps; eassumption.
    + intros t k0 v0 c Hr. eapply ri_done; eassumption.
    + apply (ri_nofail _ I).
    + rewrite upd_same. discriminate.
    + intros f Hf. rewrite upd_other by lia. now apply (ri_above _ I).
  - (* append a tombstone *)
    destruct (wstate s) eqn:Hw; try discriminate. destruct (rfiles s (ractive s)) as [recs|] eqn:Ha; [|discriminate].
    injection H as <-.
    pose proof (ext_append _ _ _ (mkRRec k None) Ha) as He.
    constructor; cbn.
    + intros k0 f p Hi. destruct (ri_idx _ I _ _ _ Hi) as (v0 & Hh). exists v0. eapply has_ext; eassumption.
    + discriminate.
    + intros t k0 f p c Hr. eapply has_ext; [exact He|]. eapply ri_look; eassumption.
    + intros t k0 c Hr. eapply ri_miss; eassumption.
    + intros t f n Hm. eapply covered_ext; [exact He|]. eapply ri_maps; eassumption.
    + intros t k0 v0 c Hr. eapply ri_done; eassumption.
    + apply (ri_nofail _ I).
    + rewrite upd_same. discriminate.
    + intros f Hf. rewrite upd_other by lia. now apply (ri_above _ I).
  - (* roll *)
    destruct (wstate s) as [|k loc|k|d] eqn:Hw; try discriminate.
    + destruct (rfiles s (S (ractive s))) eqn:Hn; [discriminate|]. injection H as <-.
      pose proof (ext_create _ _ Hn) as He.
      constructor; cbn.
      * intros k0 f p Hi. destruct (ri_idx _ I _ _ _ Hi) as (v0 & Hh). exists v0. eapply has_ext; eassumption.
      * intros k0 f p Heq. injection Heq as <- ->. destruct (ri_wr _ I _ _ _ Hw) as (v0 & Hh). exists v0. eapply has_ext; eassumption.
      * intros t k0 f p c Hr. eapply has_ext; [exact He|]. eapply ri_look; eassumption.
      * intros t k0 c Hr. eapply ri_miss; eassumption.
      * intros t f n Hm. eapply covered_ext; [exact He|]. eapply ri_maps; eassumption.
      * intros t k0 v0 c Hr. eapply ri_done; eassumption.
      * apply (ri_nofail _ I).
      * rewrite upd_same. discriminate.
      * intros f Hf. rewrite upd_other by lia. apply (ri_above _ I). lia.
    + destruct (rfiles s (S (ractive s))) eqn:Hn; [discriminate|]. injection H as <-.
      pose proof (ext_create _ _ Hn) as He.
      constructor; cbn.
      * intros k0 f p Hi. destruct (ri_idx _ I _ _ _ Hi) as (v0 & Hh). exists v0. eapply has_ext; eassumption.
      * discriminate.
      * intros t k0 f p c Hr. eapply has_ext; [exact He|]. eapply ri_look; eassumption.
      * intros t k0 c Hr. eapply ri_miss; eassumption.
      * intros t f n Hm. eapply covered_ext; [exact He|]. eapply ri_maps; eassumption.
      * intros t k0 v0 c Hr. eapply ri_done; eassumption.
      * apply (ri_nofail _ I).
      * rewrite upd_same. discriminate.
      * intros f Hf. rewrite upd_other by lia. apply (ri_above _ I). lia.
  - (* publish *)
    destruct (wstate s) as [|k [f0 p0]|k|d] eqn:Hw; try discriminate.
    + injection H as <-.
      constructor; cbn; try (now destruct I).
      intros k0 f p Hi. destruct (Nat.eq_dec k0 k) as [->|Hne].
      * rewrite upd_same in Hi. injection Hi as <- <-. eapply ri_wr; eassumption.
      * rewrite upd_other in Hi by exact Hne. eapply ri_idx; eassumption.
    + injection H as <-.
      constructor; cbn; try (now destruct I).
      intros k0 f p Hi. destruct (Nat.eq_dec k0 k) as [->|Hne].
      * rewrite upd_same in Hi. discriminate.
      * rewrite upd_other in Hi by exact Hne. eapply ri_idx; eassumption.
  - (* writer returns *)
    destruct (wstate s) eqn:Hw; try discriminate. injection H as <-.
    constructor; cbn; try (now destruct I).
  - (* lookup *)
    destruct (rreaders s t) eqn:Hr; try discriminate. injection H as <-.
    constructor; cbn; try (now destruct I).
    + intros t0 k0 f p c Hl. destruct (Nat.eq_dec t0 t) as [->|Hne].
      * rewrite upd_same in Hl. injection Hl as <- Hi <-.
        destruct (ri_idx _ I _ _ _ Hi) as (v0 & Hh). unfold rgmap. rewrite Hi.
        pose proof (rvalue_has _ _ _ _ Hh) as Hv. exact (eq_ind _ (has (rfiles s) f p) Hh _ (eq_sym Hv)).
      * rewrite upd_other in Hl by exact Hne. eapply ri_look; eassumption.
    + intros t0 k0 c Hl. destruct (Nat.eq_dec t0 t) as [->|Hne].
      * rewrite upd_same in Hl. injection Hl as <- Hi <-. unfold rgmap. now rewrite Hi.
      * rewrite upd_other in Hl by exact Hne. eapply ri_miss; eassumption.
    + intros t0 k0 v0 c Hd. destruct (Nat.eq_dec t0 t) as [->|Hne].
      * rewrite upd_same in Hd. discriminate.
      * rewrite upd_other in Hd by exact Hne. eapply ri_done; eassumption.
    + intros t0. destruct (Nat.eq_dec t0 t) as [->|Hne].
      * rewrite upd_same. discriminate.
      * rewrite upd_other by exact Hne. apply (ri_nofail _ I).
  - (* read *)
    destruct (rreaders s t) as [|k [[f p]|] c| |] eqn:Hr; try discriminate.
    + destruct (ri_look _ I _ _ _ _ _ Hr) as (recs & Hf & Hp & Hc). rewrite Hf in H.
      set (n := match rmaps s t f with None => length recs | Some n0 => if true && (n0 <=? p) then length recs else n0 end) in H.
      assert (Hn : p < n -> n <= length recs).
      { intros _. subst n. destruct (rmaps s t f) as [n0|] eqn:Hm; [|lia].
        destruct (ri_maps _ I _ _ _ Hm) as (recs' & Hf' & Hle). rewrite Hf in Hf'. injection Hf' as <-.
        cbn [andb]. destruct (n0 <=? p); lia. }
      assert (Hpn : p < n).
      { subst n. destruct (rmaps s t f) as [n0|] eqn:Hm; [|exact Hp]. cbn [andb].
        destruct (Nat.leb_spec n0 p); lia. }
      apply Nat.ltb_lt in Hpn as Hb. rewrite Hb in H. injection H as <-.
      constructor; cbn; try (now destruct I).
      * intros t0 k0 f0 p0 c0 Hl. destruct (Nat.eq_dec t0 t) as [->|Hne].
        -- rewrite upd_same in Hl. discriminate.
        -- rewrite upd_other in Hl by exact Hne. eapply ri_look; eassumption.
      * intros t0 k0 c0 Hl. destruct (Nat.eq_dec t0 t) as [->|Hne].
        -- rewrite upd_same in Hl. discriminate.
        -- rewrite upd_other in Hl by exact Hne. eapply ri_miss; eassumption.
      * intros t0 f0 n0 Hm. destruct (Nat.eq_dec t0 t) as [->|Hne].
        -- rewrite upd_same in Hm. destruct (Nat.eq_dec f0 f) as [->|Hnf].
           ++ rewrite upd_same in Hm. injection Hm as <-. exists recs. split; [exact Hf|]. now apply Hn.
           ++ rewrite upd_other in Hm by exact Hnf. eapply ri_maps; eassumption.
        -- rewrite upd_other in Hm by exact Hne. eapply ri_maps; eassumption.
      * intros t0 k0 v0 c0 Hd. destruct (Nat.eq_dec t0 t) as [->|Hne].
        -- rewrite upd_same in Hd. injection Hd as <- <- <-. now symmetry.
        -- rewrite upd_other in Hd by exact Hne. eapply ri_done; eassumption.
      * intros t0. destruct (Nat.eq_dec t0 t) as [->|Hne].
        -- rewrite upd_same. discriminate.
        -- rewrite upd_other by exact Hne. apply (ri_nofail _ I).
    + injection H as <-. pose proof (ri_miss _ I _ _ _ Hr) as ->.
      constructor; cbn; try (now destruct I).
      * intros t0 k0 f0 p0 c0 Hl. destruct (Nat.eq_dec t0 t) as [->|Hne].
        -- rewrite upd_same in Hl. discriminate.
        -- rewrite upd_other in Hl by exact Hne. eapply ri_look; eassumption.
      * intros t0 k0 c0 Hl. destruct (Nat.eq_dec t0 t) as [->|Hne].
        -- rewrite upd_same in Hl. discriminate.
        -- rewrite upd_other in Hl by exact Hne. eapply ri_miss; eassumption.
      * intros t0 k0 v0 c0 Hd. destruct (Nat.eq_dec t0 t) as [->|Hne].
        -- rewrite upd_same in Hd. now injection Hd as <- <- <-.
        -- rewrite upd_other in Hd by exact Hne. eapply ri_done; eassumption.
      * intros t0. destruct (Nat.eq_dec t0 t) as [->|Hne].
        -- rewrite upd_same. discriminate.
        -- rewrite upd_other by exact Hne. apply (ri_nofail _ I).
  - (* reader returns *)
    destruct (rreaders s t) eqn:Hr; try discriminate. injection H as <-.
    constructor; cbn; try (now destruct I).
    + intros t0 k0 f0 p0 c0 Hl. destruct (Nat.eq_dec t0 t) as [->|Hne].
      * rewrite upd_same in Hl. discriminate.
      * rewrite upd_other in Hl by exact Hne. eapply ri_look; eassumption.
    + intros t0 k0 c0 Hl. destruct (Nat.eq_dec t0 t) as [->|Hne].
      * rewrite upd_same in Hl. discriminate.
      * rewrite upd_other in Hl by exact Hne. eapply ri_miss; eassumption.
    + intros t0 k0 v0 c0 Hd. destruct (Nat.eq_dec t0 t) as [->|Hne].
      * rewrite upd_same in Hd. discriminate.
      * rewrite upd_other in Hd by exact Hne. eapply ri_done; eassumption.
    + intros t0. destruct (Nat.eq_dec t0 t) as [->|Hne].
      * rewrite upd_same. discriminate.
      * rewrite upd_other by exact Hne. apply (ri_nofail _ I).
Qed.

Lemma run_RI es : forall s s', RI s -> rrun true s es = Some s' -> RI s'.
Proof.
  induction es as [|e es IH]; intros s s' I H; cbn in H.
  - now injection H as <-.
  - destruct (rstep true s e) as [s1|] eqn:Hs; [|discriminate]. eapply IH; [|exact H]. eapply step_RI; eassumption.
Qed.

(* For every schedule from the initial state: no reader has failed, and a finished get holds the value of
   the abstract map at its lookup. *)
Theorem rollover_vs_gets es s :
  rrun true rinit es = Some s ->
  (forall t, rreaders s t <> GFailed) /\
  (forall t k v c, rreaders s t = GDone k v c -> v = c) /\
  (forall k f p, ridx s k = Some (f, p) -> exists v, has (rfiles s) f p (Some v)).
Proof.
  intros H. pose proof (run_RI _ _ _ ri_init H) as I.
  split; [apply (ri_nofail _ I)|]. split; [apply (ri_done _ I)|apply (ri_idx _ I)].
Qed.

(* the writer can always make its next step (no step of a put depends on a reader); in particular the next
   file can always be created *)
Theorem writer_never_blocked es s :
  rrun true rinit es = Some s ->
  match wstate s with
  | WIdle => forall k v, rstep true s (WAppend k v) <> None
  | WAppended _ _ | WAppendedDel _ => rstep true s WRoll <> None /\ rstep true s WPublish <> None
  | WDone _ => rstep true s WReturn <> None
  end.
Proof.
  intros H. pose proof (run_RI _ _ _ ri_init H) as I.
  destruct (wstate s) eqn:Hw; cbn [rstep]; rewrite ?Hw.
  - intros k v. destruct (rfiles s (ractive s)) eqn:Ha; [discriminate|]. now destruct (ri_active _ I).
  - split; [|discriminate]. rewrite (ri_above _ I (S (ractive s))) by lia. discriminate.
  - split; [|discriminate]. rewrite (ri_above _ I (S (ractive s))) by lia. discriminate.
  - discriminate.
Qed.

(* Without renewal (a mapping once made is kept): a reader that mapped the file before a put fails on the
   record of that put. *)
Definition stale_schedule : list rev :=
  [WAppend 1 10; WPublish; WReturn; GLookup 0 1; GRead 0; GReturn 0;
   WAppend 2 20; WPublish; WReturn; GLookup 0 2; GRead 0].

Theorem no_renewal_fails :
  exists s, rrun false rinit stale_schedule = Some s /\ rreaders s 0 = GFailed.
Proof. eexists. split; [vm_compute; reflexivity|reflexivity]. Qed.

(* the same schedule, with a rollover in the middle, under the rule of the code *)
Definition roll_schedule : list rev :=
  [WAppend 1 10; WPublish; WReturn; GLookup 0 1; GRead 0; GReturn 0;
   WAppend 2 20; WRoll; GLookup 1 2; WPublish; GLookup 0 2; WReturn; GRead 0; GRead 1; WAppend 1 11; WPublish; GReturn 0; GLookup 0 1; GRead 0].

Example roll_schedule_runs :
  exists s, rrun true rinit roll_schedule = Some s /\ rreaders s 0 = GDone 1 (Some 11) (Some 11) /\ rreaders s 1 = GDone 2 None None /\ ractive s = 1.
Proof. eexists. split; [vm_compute; reflexivity|]. repeat split. Qed.
