/* iorec.c — LD_PRELOAD recorder / fault injector for the file-system calls the store makes on
 * "*.bitcask.*" files.  Built by bin/setup:  gcc -shared -fPIC -O1 -o .cache/iorec.so shim/iorec.c -ldl
 *
 *   IOREC_LOG=<path>      append one line per call:
 *        create <name> <flags-hex>        open(..., O_CREAT ...) of a store file that succeeded
 *        openw  <name> <flags-hex>        any other open of a store file with write access / O_TRUNC
 *        write  <name> <len> <hex>        write on a store file (result = len; short writes are logged as such)
 *        pwrite <name> <len> <off>        positional write (never expected)
 *        fsync  <name>                    fsync / fdatasync
 *        unlink <name>                    successful unlink
 *        unlink! <name> <errno>           failed unlink (ENOENT on an absent hint file is normal)
 *        rename <old> <new> | truncate <name> <len> | mmapw <name>      never expected
 *        fail   <kind> <name>             a call that was made to fail by IOREC_FAIL_AT / failat marker
 *        mark   <text>                    marker emitted by the harness (unlink("/__iorec__/<text>"))
 *   Fault injection: the marker "failat <n>" makes the n-th following mutating call (create, write,
 *   fsync, unlink of an existing file; counted from 1) fail without effect: ENOSPC for create/write,
 *   EIO for fsync/unlink.  "failat 0" switches it off.
 */
#define _GNU_SOURCE
#include <dlfcn.h>
#include <errno.h>
#include <sys/syscall.h>
#include <fcntl.h>
#include <pthread.h>
#include <stdarg.h>
#include <stdio.h>
#include <stdlib.h>
#include <string.h>
#include <sys/mman.h>
#include <sys/stat.h>
#include <sys/types.h>
#include <unistd.h>

#define MAXFD 4096
static char *fdname[MAXFD];
static pthread_mutex_t mu = PTHREAD_MUTEX_INITIALIZER;
static int logfd = -2;
static long fail_at = 0, counter = 0, fail_tid = 0;

static int (*real_open)(const char *, int, ...);
static int (*real_open64)(const char *, int, ...);
static int (*real_openat)(int, const char *, int, ...);
static ssize_t (*real_write)(int, const void *, size_t);
static ssize_t (*real_pwrite)(int, const void *, size_t, off_t);
static int (*real_fsync)(int);
static int (*real_fdatasync)(int);
static int (*real_unlink)(const char *);
static int (*real_unlinkat)(int, const char *, int);
static int (*real_rename)(const char *, const char *);
static int (*real_ftruncate)(int, off_t);
static int (*real_close)(int);
static void *(*real_mmap)(void *, size_t, int, int, int, off_t);

static void init(void) {
  if (real_write) return;
  real_open = dlsym(RTLD_NEXT, "open");
  real_open64 = dlsym(RTLD_NEXT, "open64");
  real_openat = dlsym(RTLD_NEXT, "openat");
  real_write = dlsym(RTLD_NEXT, "write");
  real_pwrite = dlsym(RTLD_NEXT, "pwrite");
  real_fsync = dlsym(RTLD_NEXT, "fsync");
  real_fdatasync = dlsym(RTLD_NEXT, "fdatasync");
  real_unlink = dlsym(RTLD_NEXT, "unlink");
  real_unlinkat = dlsym(RTLD_NEXT, "unlinkat");
  real_rename = dlsym(RTLD_NEXT, "rename");
  real_ftruncate = dlsym(RTLD_NEXT, "ftruncate");
  real_close = dlsym(RTLD_NEXT, "close");
  real_mmap = dlsym(RTLD_NEXT, "mmap");
}

static void emit(const char *s, size_t n) {
  if (logfd == -2) {
    const char *p = getenv("IOREC_LOG");
    logfd = p ? real_open(p, O_WRONLY | O_CREAT | O_APPEND | O_CLOEXEC, 0644) : -1;
  }
  if (logfd >= 0) real_write(logfd, s, n);
}

static void logf_(const char *fmt, ...) {
  char buf[1024];
  va_list ap;
  va_start(ap, fmt);
  int n = vsnprintf(buf, sizeof buf, fmt, ap);
  va_end(ap);
  if (n > 0) emit(buf, (size_t)n < sizeof buf ? (size_t)n : sizeof buf - 1);
}

static const char *base(const char *p) {
  const char *b = strrchr(p, '/');
  return b ? b + 1 : p;
}
static int is_store_file(const char *p) { return p && strstr(base(p), ".bitcask.") != NULL; }

/* returns 1 if this mutating call must fail */
static int should_fail(const char *kind, const char *name) {
  if (fail_at <= 0) return 0;
  /* only calls of the thread that armed the injector count: the operations of a case run on it */
  if (fail_tid != 0 && fail_tid != (long)syscall(SYS_gettid)) return 0;
  counter++;
  if (counter == fail_at) {
    logf_("fail %s %s\n", kind, name);
    fail_at = 0;
    return 1;
  }
  return 0;
}

static int do_open(int which, int dirfd, const char *path, int flags, mode_t mode) {
  init();
  int store = is_store_file(path);
  if (store && (flags & O_CREAT)) {
    pthread_mutex_lock(&mu);
    int f = should_fail("create", base(path));
    pthread_mutex_unlock(&mu);
    if (f) { errno = ENOSPC; return -1; }
  }
  int fd = which == 0 ? real_open(path, flags, mode) : which == 1 ? real_open64(path, flags, mode) : real_openat(dirfd, path, flags, mode);
  if (store && fd >= 0 && fd < MAXFD) {
    pthread_mutex_lock(&mu);
    free(fdname[fd]);
    fdname[fd] = strdup(base(path));
    if (flags & O_CREAT) logf_("create %s %x\n", base(path), flags);
    else if ((flags & O_ACCMODE) != O_RDONLY || (flags & O_TRUNC)) logf_("openw %s %x\n", base(path), flags);
    pthread_mutex_unlock(&mu);
  }
  return fd;
}

int open(const char *path, int flags, ...) {
  mode_t mode = 0;
  if (flags & (O_CREAT | O_TMPFILE)) { va_list ap; va_start(ap, flags); mode = va_arg(ap, mode_t); va_end(ap); }
  return do_open(0, 0, path, flags, mode);
}
int open64(const char *path, int flags, ...) {
  mode_t mode = 0;
  if (flags & (O_CREAT | O_TMPFILE)) { va_list ap; va_start(ap, flags); mode = va_arg(ap, mode_t); va_end(ap); }
  return do_open(1, 0, path, flags, mode);
}
int openat(int dirfd, const char *path, int flags, ...) {
  mode_t mode = 0;
  if (flags & (O_CREAT | O_TMPFILE)) { va_list ap; va_start(ap, flags); mode = va_arg(ap, mode_t); va_end(ap); }
  return do_open(2, dirfd, path, flags, mode);
}

int close(int fd) {
  init();
  if (fd >= 0 && fd < MAXFD && fdname[fd]) {
    pthread_mutex_lock(&mu);
    free(fdname[fd]);
    fdname[fd] = NULL;
    pthread_mutex_unlock(&mu);
  }
  return real_close(fd);
}

ssize_t write(int fd, const void *buf, size_t n) {
  init();
  if (fd >= 0 && fd < MAXFD && fdname[fd] && fd != logfd) {
    pthread_mutex_lock(&mu);
    if (should_fail("write", fdname[fd])) { pthread_mutex_unlock(&mu); errno = ENOSPC; return -1; }
    ssize_t r = real_write(fd, buf, n);
    if (r >= 0) {
      size_t len = (size_t)r;
      char *line = malloc(64 + strlen(fdname[fd]) + 2 * len);
      int k = sprintf(line, "write %s %zu ", fdname[fd], len);
      static const char hx[] = "0123456789abcdef";
      const unsigned char *b = buf;
      for (size_t i = 0; i < len; i++) { line[k++] = hx[b[i] >> 4]; line[k++] = hx[b[i] & 15]; }
      if (len == 0) line[k++] = '-';
      line[k++] = '\n';
      emit(line, (size_t)k);
      free(line);
    }
    pthread_mutex_unlock(&mu);
    return r;
  }
  return real_write(fd, buf, n);
}

ssize_t pwrite(int fd, const void *buf, size_t n, off_t off) {
  init();
  if (fd >= 0 && fd < MAXFD && fdname[fd]) {
    pthread_mutex_lock(&mu);
    logf_("pwrite %s %zu %lld\n", fdname[fd], n, (long long)off);
    pthread_mutex_unlock(&mu);
  }
  return real_pwrite(fd, buf, n, off);
}

static int do_sync(int fd, int data) {
  init();
  if (fd >= 0 && fd < MAXFD && fdname[fd]) {
    pthread_mutex_lock(&mu);
    if (should_fail("fsync", fdname[fd])) { pthread_mutex_unlock(&mu); errno = EIO; return -1; }
    logf_("fsync %s\n", fdname[fd]);
    pthread_mutex_unlock(&mu);
  }
  return data ? real_fdatasync(fd) : real_fsync(fd);
}
int fsync(int fd) { return do_sync(fd, 0); }
int fdatasync(int fd) { return do_sync(fd, 1); }

int unlink(const char *path) {
  init();
  if (path && strncmp(path, "/__iorec__/", 11) == 0) {
    pthread_mutex_lock(&mu);
    const char *t = path + 11;
    if (strncmp(t, "failat ", 7) == 0) { fail_at = atol(t + 7); counter = 0; fail_tid = (long)syscall(SYS_gettid); }
    /* an injector that did not fire must not leak into the next case */
    if (strncmp(t, "case ", 5) == 0 || strcmp(t, "end") == 0) { fail_at = 0; counter = 0; }
    logf_("mark %s\n", t);
    pthread_mutex_unlock(&mu);
    errno = ENOENT;
    return -1;
  }
  if (is_store_file(path)) {
    pthread_mutex_lock(&mu);
    struct stat st;
    int exists = stat(path, &st) == 0;
    if (exists && should_fail("unlink", base(path))) { pthread_mutex_unlock(&mu); errno = EIO; return -1; }
    int r = real_unlink(path);
    if (r == 0) logf_("unlink %s\n", base(path)); else logf_("unlink! %s %d\n", base(path), errno);
    pthread_mutex_unlock(&mu);
    return r;
  }
  return real_unlink(path);
}

int unlinkat(int dirfd, const char *path, int flags) {
  init();
  if (is_store_file(path)) {
    pthread_mutex_lock(&mu);
    int r = real_unlinkat(dirfd, path, flags);
    if (r == 0) logf_("unlink %s\n", base(path)); else logf_("unlink! %s %d\n", base(path), errno);
    pthread_mutex_unlock(&mu);
    return r;
  }
  return real_unlinkat(dirfd, path, flags);
}

int rename(const char *a, const char *b) {
  init();
  if (is_store_file(a) || is_store_file(b)) {
    pthread_mutex_lock(&mu);
    logf_("rename %s %s\n", base(a), base(b));
    pthread_mutex_unlock(&mu);
  }
  return real_rename(a, b);
}

int ftruncate(int fd, off_t len) {
  init();
  if (fd >= 0 && fd < MAXFD && fdname[fd]) {
    pthread_mutex_lock(&mu);
    logf_("truncate %s %lld\n", fdname[fd], (long long)len);
    pthread_mutex_unlock(&mu);
  }
  return real_ftruncate(fd, len);
}
int ftruncate64(int fd, off_t len) { return ftruncate(fd, len); }

void *mmap(void *addr, size_t len, int prot, int flags, int fd, off_t off) {
  init();
  if (fd >= 0 && fd < MAXFD && fdname[fd] && (prot & PROT_WRITE) && (flags & MAP_SHARED)) {
    pthread_mutex_lock(&mu);
    logf_("mmapw %s\n", fdname[fd]);
    pthread_mutex_unlock(&mu);
  }
  return real_mmap(addr, len, prot, flags, fd, off);
}
void *mmap64(void *addr, size_t len, int prot, int flags, int fd, off_t off) { return mmap(addr, len, prot, flags, fd, off); }
