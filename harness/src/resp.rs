//! `resp` mode: Frame::check and Frame::parse on arbitrary byte strings.
//! stdin: one hex string per line.  stdout: `<check> | <parse>` per line, flushed per line so that
//! a process abort (stack overflow, allocation failure) identifies the input that caused it.
use std::io::{BufRead, Cursor, Write};

use bitcask::net::frame::{Error, Frame};

use crate::util::{quiet_panics, show_frame, unhex};

fn err_name(e: &Error) -> &'static str {
    match e {
        Error::Incomplete => "Incomplete",
        Error::BadEncoding => "BadEncoding",
        Error::NotInteger(_) => "NotInteger",
        Error::NotUtf8(_) => "NotUtf8",
    }
}

pub fn run_one(buf: &[u8]) -> String {
    let c = std::panic::catch_unwind(|| {
        let mut cur = Cursor::new(buf);
        match Frame::check(&mut cur) {
            Ok(()) => format!("ok:{}", cur.position()),
            Err(e) => format!("err:{}", err_name(&e)),
        }
    })
    .unwrap_or_else(|_| "panic".to_string());
    let p = std::panic::catch_unwind(|| {
        let mut cur = Cursor::new(buf);
        match Frame::parse(&mut cur) {
            Ok(f) => format!("ok:{}:{}", cur.position(), show_frame(&f)),
            Err(e) => format!("err:{}", err_name(&e)),
        }
    })
    .unwrap_or_else(|_| "panic".to_string());
    // parse of exactly the bytes the completeness check accepted
    let t = match c.strip_prefix("ok:").and_then(|n| n.parse::<usize>().ok()) {
        Some(n) if n <= buf.len() => std::panic::catch_unwind(|| {
            let mut cur = Cursor::new(&buf[..n]);
            match Frame::parse(&mut cur) {
                Ok(f) => format!("ok:{}:{}", cur.position(), show_frame(&f)),
                Err(e) => format!("err:{}", err_name(&e)),
            }
        })
        .unwrap_or_else(|_| "panic".to_string()),
        _ => "-".to_string(),
    };
    format!("{} | {} | {}", c, p, t)
}

pub fn main(_args: &[String]) -> i32 {
    quiet_panics();
    // Run on a thread with the stack size of a tokio worker (2 MiB), which is where the server
    // parses frames.
    let h = std::thread::Builder::new()
        .stack_size(2 * 1024 * 1024)
        .spawn(|| {
            let stdin = std::io::stdin();
            let stdout = std::io::stdout();
            let mut out = stdout.lock();
            for line in stdin.lock().lines() {
                let line = line.unwrap();
                let buf = unhex(&line);
                let r = run_one(&buf);
                writeln!(out, "{}", r).unwrap();
                out.flush().unwrap();
            }
        })
        .unwrap();
    h.join().unwrap();
    0
}
