//! `store` mode: scripted operation sequences against the real store in a scratch directory.
//!
//! stdin:
//!   CASE <name> mfs=<n> cache=<n> conc=<n> sync=<none|always> frag=<num>/<den> dead=<n> small=<n> [dir=<path>]
//!   set <key> <value> | get <key> | del <key> | merge | reopen | clock <n> | dump | ls | cat | drophints
//!   END
//! stdout: one line per operation (`#`-prefixed lines carry oracle information: merge copy order).
use std::{
    collections::{BTreeMap, BTreeSet},
    io::{BufRead, Write},
    path::{Path, PathBuf},
};

use bitcask::storage::{
    bitcask::{Bitcask, Config, Handle, SyncStrategy, VerifMergePolicy},
    KeyValueStorage,
};
use bytes::Bytes;

use crate::util::{hex, quiet_panics, unhex};

pub struct CaseCfg {
    pub name: String,
    pub mfs: u64,
    pub cache: usize,
    pub conc: usize,
    pub sync_always: bool,
    pub frag: f64,
    pub dead: u64,
    pub small: u64,
    pub dir: Option<PathBuf>,
    pub policy_always: bool,
    pub policy_window: Option<(u32, u32)>,
    pub interval_ms: u64,
    pub jitter: f64,
    pub trig_frag: f64,
    pub trig_dead: u64,
    pub sync_ms: u64,
}

fn local_hour() -> u32 {
    unsafe {
        let t = libc::time(std::ptr::null_mut());
        let mut tm: libc::tm = std::mem::zeroed();
        libc::localtime_r(&t, &mut tm);
        tm.tm_hour as u32
    }
}

pub fn parse_case(line: &str) -> CaseCfg {
    let mut c = CaseCfg {
        name: String::new(),
        mfs: 2 * 1024 * 1024 * 1024,
        cache: 256,
        conc: 1,
        sync_always: false,
        frag: 0.4,
        dead: 128 * 1024 * 1024,
        small: 10 * 1024 * 1024,
        dir: None,
        policy_always: false,
        policy_window: None,
        interval_ms: 3_600_000,
        jitter: 0.0,
        trig_frag: 0.6,
        trig_dead: 512 * 1024 * 1024,
        sync_ms: 0,
    };
    let mut it = line.split_whitespace();
    it.next();
    c.name = it.next().unwrap_or("?").to_string();
    for kv in it {
        let (k, v) = kv.split_once('=').expect("k=v");
        let ratio = |v: &str| -> f64 {
            let (n, d) = v.split_once('/').expect("num/den");
            n.parse::<f64>().unwrap() / d.parse::<f64>().unwrap()
        };
        match k {
            "mfs" => c.mfs = v.parse().unwrap(),
            "cache" => c.cache = v.parse().unwrap(),
            "conc" => c.conc = v.parse().unwrap(),
            "sync" => c.sync_always = v == "always",
            "frag" => c.frag = ratio(v),
            "dead" => c.dead = v.parse().unwrap(),
            "small" => c.small = v.parse().unwrap(),
            "dir" => c.dir = Some(PathBuf::from(v)),
            "policy" => {
                c.policy_always = v == "always";
                // window:open = the whole day; window:closed = one hour, twelve hours from now
                if v == "window:open" {
                    c.policy_window = Some((0, 23));
                } else if v == "window:closed" {
                    let h = (local_hour() + 12) % 24;
                    c.policy_window = Some((h, h));
                }
            }
            "interval" => c.interval_ms = v.parse().unwrap(),
            "jitter" => c.jitter = ratio(v),
            "tfrag" => c.trig_frag = ratio(v),
            "tdead" => c.trig_dead = v.parse().unwrap(),
            "syncms" => c.sync_ms = v.parse().unwrap(),
            _ => panic!("unknown case key {}", k),
        }
    }
    c
}

pub fn make_config(c: &CaseCfg, dir: &Path) -> Config {
    let mut conf = Config::default();
    conf.path(dir)
        .concurrency(c.conc)
        .readers_cache_size(c.cache)
        .max_file_size(c.mfs)
        .sync(if c.sync_always {
            SyncStrategy::Always
        } else if c.sync_ms > 0 {
            SyncStrategy::IntervalMs(c.sync_ms)
        } else {
            SyncStrategy::None
        })
        .merge_policy(match c.policy_window {
            Some((start, end)) => VerifMergePolicy::Window { start, end },
            None if c.policy_always => VerifMergePolicy::Always,
            None => VerifMergePolicy::Never,
        })
        .merge_check_interval_ms(c.interval_ms)
        .merge_check_jitter(c.jitter)
        .merge_trigger_fragmentation(c.trig_frag)
        .merge_trigger_dead_bytes(c.trig_dead)
        .merge_threshold_fragmentation(c.frag)
        .merge_threshold_dead_bytes(c.dead)
        .merge_threshold_small_file(c.small);
    conf
}

/// Independent decoder of the on-disk record layout (bincode 1.x defaults), used to read the
/// merge copy order back from merge outputs and by the `cat` operation's consumers.
pub fn decode_entries(buf: &[u8]) -> Vec<(i64, Vec<u8>, Option<Vec<u8>>, u64, u64)> {
    let mut out = Vec::new();
    let mut p = 0usize;
    let rd = |p: usize| -> Option<u64> {
        if p + 8 > buf.len() {
            None
        } else {
            Some(u64::from_le_bytes(buf[p..p + 8].try_into().unwrap()))
        }
    };
    loop {
        let start = p;
        let ts = match rd(p) {
            Some(x) => x as i64,
            None => break,
        };
        p += 8;
        let kl = match rd(p) {
            Some(x) => x as usize,
            None => break,
        };
        p += 8;
        if p + kl > buf.len() {
            break;
        }
        let k = buf[p..p + kl].to_vec();
        p += kl;
        if p >= buf.len() {
            break;
        }
        let tag = buf[p];
        p += 1;
        let v = if tag == 0 {
            None
        } else {
            let vl = match rd(p) {
                Some(x) => x as usize,
                None => break,
            };
            p += 8;
            if p + vl > buf.len() {
                break;
            }
            let v = buf[p..p + vl].to_vec();
            p += vl;
            Some(v)
        };
        out.push((ts, k, v, start as u64, (p - start) as u64));
    }
    out
}

pub fn list_dir(dir: &Path) -> BTreeMap<String, Vec<u8>> {
    let mut m = BTreeMap::new();
    if let Ok(rd) = std::fs::read_dir(dir) {
        for e in rd.flatten() {
            let name = e.file_name().to_string_lossy().to_string();
            if name.contains(".bitcask.") {
                m.insert(name, std::fs::read(e.path()).unwrap_or_default());
            }
        }
    }
    m
}

fn short_name(n: &str) -> String {
    // "12.bitcask.data" -> "12.data"
    n.replace(".bitcask.", ".")
}

fn file_id(n: &str) -> u64 {
    n.split('.').next().unwrap().parse().unwrap_or(u64::MAX)
}

pub fn show_ls(dir: &Path, full: bool) -> String {
    let files = list_dir(dir);
    let mut names: Vec<&String> = files.keys().collect();
    names.sort_by_key(|n| (file_id(n), n.ends_with("hint")));
    let items: Vec<String> = names
        .iter()
        .map(|n| {
            let b = &files[*n];
            if full {
                format!("{}={}", short_name(n), if b.is_empty() { "-".to_string() } else { b.iter().map(|x| format!("{:02x}", x)).collect() })
            } else {
                let mut h: u64 = 0;
                for x in b {
                    h = (h * 31 + *x as u64) % 4294967296;
                }
                format!("{}={}:{}", short_name(n), b.len(), h)
            }
        })
        .collect();
    items.join(",")
}

pub fn show_dump(h: &Handle) -> String {
    let d = h.verif_dump();
    let mut ks: Vec<String> = d
        .keydir
        .iter()
        .map(|(k, f, p, l, t)| format!("{}:{}:{}:{}:{}", hex(k), f, p, l, t))
        .collect();
    ks.sort();
    let mut ss: Vec<(u64, String)> = d.stats.iter().map(|(f, l, dd, db)| (*f, format!("{}:{}:{}:{}", f, l, dd, db))).collect();
    ss.sort();
    format!(
        "dump a={} w={} k=[{}] s=[{}]",
        d.active_fileid,
        d.written_bytes,
        ks.join(","),
        ss.into_iter().map(|x| x.1).collect::<Vec<_>>().join(",")
    )
}

fn data_ids(dir: &Path) -> BTreeSet<u64> {
    list_dir(dir).keys().filter(|n| n.ends_with(".data")).map(|n| file_id(n)).collect()
}

/// Keys in the order a merge copied them: entries of the data files that appeared during the merge
/// and have a hint file, by ascending id then position.
fn merge_order(dir: &Path, before: &BTreeSet<u64>) -> Vec<Vec<u8>> {
    let files = list_dir(dir);
    let mut out = Vec::new();
    for id in data_ids(dir) {
        if before.contains(&id) {
            continue;
        }
        if !files.contains_key(&format!("{}.bitcask.hint", id)) {
            continue;
        }
        for (_, k, _, _, _) in decode_entries(&files[&format!("{}.bitcask.data", id)]) {
            out.push(k);
        }
    }
    out
}

/// Marker for the LD_PRELOAD recorder (shim/iorec.c); a no-op without it.
pub fn mark(text: &str) {
    if std::env::var_os("IOREC_LOG").is_some() {
        let _ = std::fs::remove_file(format!("/__iorec__/{}", text));
    }
}

pub struct Live {
    pub kv: Option<Bitcask>,
    pub h: Option<Handle>,
    /// a handle that outlived its store (C17)
    pub old: Option<Handle>,
}

fn count_bg_threads() -> usize {
    let mut n = 0;
    if let Ok(rd) = std::fs::read_dir("/proc/self/task") {
        for e in rd.flatten() {
            if let Ok(c) = std::fs::read_to_string(e.path().join("comm")) {
                if c.starts_with("bitcask-backgro") {
                    n += 1;
                }
            }
        }
    }
    n
}

fn count_store_fds(dir: &Path) -> usize {
    let mut n = 0;
    if let Ok(rd) = std::fs::read_dir("/proc/self/fd") {
        for e in rd.flatten() {
            if let Ok(t) = std::fs::read_link(e.path()) {
                if t.starts_with(dir) || t.to_string_lossy().contains(&*dir.to_string_lossy()) {
                    n += 1;
                }
            }
        }
    }
    n
}

fn has_hint(dir: &Path) -> bool {
    list_dir(dir).keys().any(|n| n.ends_with(".hint"))
}

pub fn run_case(c: &CaseCfg, ops: &[String], out: &mut dyn Write, scratch: &Path) {
    let dir = c.dir.clone().unwrap_or_else(|| scratch.join(&c.name));
    if c.dir.is_none() {
        let _ = std::fs::remove_dir_all(&dir);
        std::fs::create_dir_all(&dir).unwrap();
    }
    bitcask::verif::set_clock(1);
    mark(&format!("case {}", c.name));
    let mut live = Live { kv: None, h: None, old: None };
    let opened = std::panic::catch_unwind(|| make_config(c, &dir).open());
    match opened {
        Ok(Ok(kv)) => {
            live.h = Some(kv.get_handle());
            live.kv = Some(kv);
            writeln!(out, "open ok").unwrap();
        }
        Ok(Err(e)) => writeln!(out, "open err:{}", e).unwrap(),
        Err(_) => writeln!(out, "open panic").unwrap(),
    }
    let mut dead = live.h.is_none();
    for (opi, line) in ops.iter().enumerate() {
        let mut it = line.split_whitespace();
        let cmd = it.next().unwrap_or("");
        if cmd != "failat" {
            mark(&format!("op {} {}", opi, cmd));
        }
        if dead && !["ls", "cat", "reopen", "threads", "waitthreads", "fds", "waitfds", "sleep", "oldget", "oldset", "olddel", "oldmerge", "oldsync", "nopoints", "parkpoint"].contains(&cmd) {
            writeln!(out, "abandoned").unwrap();
            continue;
        }
        let res: String = match cmd {
            "set" => {
                let k = Bytes::from(unhex(it.next().unwrap()));
                let v = Bytes::from(unhex(it.next().unwrap_or("-")));
                let h = live.h.as_ref().unwrap().clone();
                match std::panic::catch_unwind(std::panic::AssertUnwindSafe(|| h.set(k, v))) {
                    Ok(Ok(())) => "ok".into(),
                    Ok(Err(e)) => format!("err:{}", e),
                    Err(_) => {
                        dead = true;
                        "panic".into()
                    }
                }
            }
            "get" => {
                let k = Bytes::from(unhex(it.next().unwrap()));
                let h = live.h.as_ref().unwrap().clone();
                match std::panic::catch_unwind(std::panic::AssertUnwindSafe(|| h.get(k))) {
                    Ok(Ok(Some(v))) => format!("some:{}", hex(&v)),
                    Ok(Ok(None)) => "none".into(),
                    Ok(Err(e)) => format!("err:{}", e),
                    Err(_) => {
                        dead = true;
                        "panic".into()
                    }
                }
            }
            "del" => {
                let k = Bytes::from(unhex(it.next().unwrap()));
                let h = live.h.as_ref().unwrap().clone();
                match std::panic::catch_unwind(std::panic::AssertUnwindSafe(|| h.del(k))) {
                    Ok(Ok(b)) => format!("{}", b),
                    Ok(Err(e)) => format!("err:{}", e),
                    Err(_) => {
                        dead = true;
                        "panic".into()
                    }
                }
            }
            "merge" => {
                let before = data_ids(&dir);
                let h = live.h.as_ref().unwrap().clone();
                let sel = h.verif_fileids_to_merge().map(|v| v.iter().map(|x| x.to_string()).collect::<Vec<_>>().join(",")).unwrap_or_else(|e| format!("err:{}", e));
                let r = match std::panic::catch_unwind(std::panic::AssertUnwindSafe(|| h.verif_merge())) {
                    Ok(Ok(())) => "ok".to_string(),
                    Ok(Err(e)) => format!("err:{}", e),
                    Err(_) => {
                        dead = true;
                        "panic".into()
                    }
                };
                let ord: Vec<String> = merge_order(&dir, &before).iter().map(|k| if k.is_empty() { "-".to_string() } else { k.iter().map(|x| format!("{:02x}", x)).collect() }).collect();
                writeln!(out, "#order {}", ord.join(",")).unwrap();
                writeln!(out, "#selected {}", sel).unwrap();
                r
            }
            "reopen" => {
                live.h = None;
                live.kv = None;
                // a restart: the old instance is gone before the new one starts (its worker thread holds the last handle,
                // and with it the writer, for a moment).  When a handle is kept on purpose (C17) the store is opened at once.
                if live.old.is_none() {
                    let t0 = std::time::Instant::now();
                    // (its descriptors are closed when the last handle is gone: the worker thread may not even have started yet)
                    while (count_bg_threads() > 0 || count_store_fds(&dir) > 0) && t0.elapsed().as_millis() < 3000 {
                        std::thread::sleep(std::time::Duration::from_millis(1));
                    }
                }
                match std::panic::catch_unwind(|| make_config(c, &dir).open()) {
                    Ok(Ok(kv)) => {
                        live.h = Some(kv.get_handle());
                        live.kv = Some(kv);
                        dead = false;
                        "ok".into()
                    }
                    Ok(Err(e)) => {
                        dead = true;
                        format!("err:{}", e)
                    }
                    Err(_) => {
                        dead = true;
                        "panic".into()
                    }
                }
            }
            "parkpoint" => {
                // every thread that reaches <point> sleeps <ms> there
                let point = it.next().unwrap().to_string();
                let ms: u64 = it.next().unwrap().parse().unwrap();
                bitcask::verif::set_point_callback(Some(std::sync::Arc::new(move |name: &'static str| {
                    if name == point {
                        std::thread::sleep(std::time::Duration::from_millis(ms));
                    }
                })));
                "ok".into()
            }
            "nopoints" => {
                bitcask::verif::set_point_callback(None);
                "ok".into()
            }
            "bgmerge" => {
                // a merge pass on another thread (through a clone of the handle); not awaited
                match live.h.as_ref() {
                    Some(h) => {
                        let h = h.clone();
                        std::thread::spawn(move || {
                            let _ = std::panic::catch_unwind(std::panic::AssertUnwindSafe(|| h.verif_merge()));
                        });
                        "ok".into()
                    }
                    None => "nohandle".into(),
                }
            }
            "drop" => {
                // the owning object goes away, a handle survives
                live.old = live.h.take();
                live.kv = None;
                dead = true;
                "ok".into()
            }
            "oldget" | "oldset" | "olddel" | "oldmerge" | "oldsync" => match live.old.as_ref() {
                None => "nohandle".into(),
                Some(h) => {
                    // on its own thread with a deadline: an operation on a closed store must fail, not hang
                    let h = h.clone();
                    let k = Bytes::from(unhex(it.next().unwrap_or("-")));
                    let v = Bytes::from(unhex(it.next().unwrap_or("-")));
                    let cmd = cmd.to_string();
                    let (tx, rx) = std::sync::mpsc::channel();
                    std::thread::spawn(move || {
                        let r: Result<String, String> = match cmd.as_str() {
                            "oldget" => h.get(k).map(|x| format!("{:?}", x.map(|b| hex(&b)))).map_err(|e| e.to_string()),
                            "oldset" => h.set(k, v).map(|_| "ok".to_string()).map_err(|e| e.to_string()),
                            "olddel" => h.del(k).map(|b| b.to_string()).map_err(|e| e.to_string()),
                            "oldmerge" => h.verif_merge().map(|_| "ok".to_string()).map_err(|e| e.to_string()),
                            _ => h.verif_sync().map(|_| "ok".to_string()).map_err(|e| e.to_string()),
                        };
                        let _ = tx.send(r);
                    });
                    match rx.recv_timeout(std::time::Duration::from_millis(3000)) {
                        Ok(Ok(x)) => format!("ok:{}", x),
                        Ok(Err(e)) => format!("err:{}", e),
                        Err(_) => "hang".into(),
                    }
                }
            },
            "threads" => format!("threads {}", count_bg_threads()),
            "waitthreads" => {
                // wait until the number of background threads is <n>, at most <ms>
                let n: usize = it.next().unwrap().parse().unwrap();
                let ms: u64 = it.next().unwrap().parse().unwrap();
                let t0 = std::time::Instant::now();
                loop {
                    let c = count_bg_threads();
                    if c == n || t0.elapsed().as_millis() as u64 > ms {
                        break format!("threads {}", c);
                    }
                    std::thread::sleep(std::time::Duration::from_millis(5));
                }
            }
            "fds" => format!("fds {}", count_store_fds(&dir)),
            "waitfds" => {
                // wait until at most <n> descriptors on store files are open, at most <ms>
                let n: usize = it.next().unwrap().parse().unwrap();
                let ms: u64 = it.next().unwrap().parse().unwrap();
                let t0 = std::time::Instant::now();
                loop {
                    let c = count_store_fds(&dir);
                    if c <= n || t0.elapsed().as_millis() as u64 > ms {
                        break format!("fds {}", c);
                    }
                    std::thread::sleep(std::time::Duration::from_millis(5));
                }
            }
            "sleep" => {
                std::thread::sleep(std::time::Duration::from_millis(it.next().unwrap().parse().unwrap()));
                "ok".into()
            }
            "canmerge" => format!("{}", live.h.as_ref().unwrap().verif_can_merge()),
            "touch" => {
                // create an empty file of that name in the store directory (e.g. the name the next merge pass wants)
                match std::fs::OpenOptions::new().write(true).create_new(true).open(dir.join(it.next().unwrap())) {
                    Ok(_) => "ok".into(),
                    Err(e) => format!("err:{}", e.kind()),
                }
            }
            "waitmerge" => {
                // wait for a background merge: a hint file appears
                let ms: u64 = it.next().unwrap().parse().unwrap();
                let t0 = std::time::Instant::now();
                loop {
                    if has_hint(&dir) {
                        break format!("merged");
                    }
                    if t0.elapsed().as_millis() as u64 > ms {
                        break "nomerge".to_string();
                    }
                    std::thread::sleep(std::time::Duration::from_millis(5));
                }
            }
            "failat" => {
                mark(&format!("failat {}", it.next().unwrap_or("0")));
                "ok".into()
            }
            "clock" => {
                bitcask::verif::set_clock(it.next().unwrap().parse().unwrap());
                "ok".into()
            }
            "dump" => show_dump(live.h.as_ref().unwrap()),
            "ls" => format!("ls {}", show_ls(&dir, false)),
            "cat" => format!("cat {}", show_ls(&dir, true)),
            "drophints" => {
                // close, delete every hint file, reopen (C12)
                live.h = None;
                live.kv = None;
                for n in list_dir(&dir).keys() {
                    if n.ends_with(".hint") {
                        let _ = std::fs::remove_file(dir.join(n));
                    }
                }
                match std::panic::catch_unwind(|| make_config(c, &dir).open()) {
                    Ok(Ok(kv)) => {
                        live.h = Some(kv.get_handle());
                        live.kv = Some(kv);
                        "ok".into()
                    }
                    Ok(Err(e)) => {
                        dead = true;
                        format!("err:{}", e)
                    }
                    Err(_) => {
                        dead = true;
                        "panic".into()
                    }
                }
            }
            _ => "badop".into(),
        };
        writeln!(out, "{}", res).unwrap();
    }
    live.h = None;
    live.kv = None;
    live.old = None;
    // the worker thread owns a handle: wait until it is gone, so that nothing of this case (a buffered
    // tail flushed when the last handle drops) happens during the next case
    let t0 = std::time::Instant::now();
    while count_bg_threads() > 0 && t0.elapsed().as_millis() < 3000 {
        std::thread::sleep(std::time::Duration::from_millis(2));
    }
    mark("end");
    writeln!(out, "end").unwrap();
    out.flush().unwrap();
    if c.dir.is_none() {
        let _ = std::fs::remove_dir_all(&dir);
    }
}

pub fn main(_args: &[String]) -> i32 {
    quiet_panics();
    let scratch = PathBuf::from(format!("/dev/shm/bcv-{}", std::process::id()));
    std::fs::create_dir_all(&scratch).unwrap();
    let stdin = std::io::stdin();
    let stdout = std::io::stdout();
    let mut out = std::io::BufWriter::new(stdout.lock());
    let mut cur: Option<CaseCfg> = None;
    let mut ops: Vec<String> = Vec::new();
    for line in stdin.lock().lines() {
        let line = line.unwrap();
        if line.starts_with("CASE") {
            cur = Some(parse_case(&line));
            ops.clear();
        } else if line.trim() == "END" {
            if let Some(c) = cur.take() {
                writeln!(out, "case {}", c.name).unwrap();
                run_case(&c, &ops, &mut out, &scratch);
            }
        } else if !line.trim().is_empty() {
            ops.push(line);
        }
    }
    let _ = std::fs::remove_dir_all(&scratch);
    0
}

/// `recover` mode: open directory images left by a simulated crash and read every key.
/// stdin:  `R <dir> mfs=<n> <key>,<key>,...`
/// stdout: `open:ok <key>=<result>,...` | `open:err:<text>` | `open:panic`
fn return_line(out: &mut dyn Write, s: String) {
    writeln!(out, "{}", s).unwrap();
}

pub fn recover_main(_args: &[String]) -> i32 {
    quiet_panics();
    let stdin = std::io::stdin();
    let stdout = std::io::stdout();
    let mut out = std::io::BufWriter::new(stdout.lock());
    for line in stdin.lock().lines() {
        let line = line.unwrap();
        let mut it = line.split_whitespace();
        if it.next() != Some("R") {
            continue;
        }
        let dir = PathBuf::from(it.next().unwrap());
        let mfs: u64 = it.next().unwrap().trim_start_matches("mfs=").parse().unwrap();
        let keys: Vec<Vec<u8>> = it.next().unwrap_or("").split(',').filter(|s| !s.is_empty()).map(unhex).collect();
        let mut c = parse_case("CASE r");
        c.mfs = mfs;
        let res = match std::panic::catch_unwind(|| make_config(&c, &dir).open()) {
            Ok(Ok(kv)) => {
                let h = kv.get_handle();
                let mut items = Vec::new();
                let mut dead = false;
                for k in &keys {
                    if dead {
                        items.push(format!("{}=abandoned", hex(k)));
                        continue;
                    }
                    let hh = h.clone();
                    let kk = Bytes::from(k.clone());
                    let r = match std::panic::catch_unwind(std::panic::AssertUnwindSafe(|| hh.get(kk))) {
                        Ok(Ok(Some(v))) => format!("some:{}", hex(&v)),
                        Ok(Ok(None)) => "none".to_string(),
                        Ok(Err(e)) => format!("err:{}", e).replace(' ', "_").replace(',', ";"),
                        Err(_) => {
                            dead = true;
                            "panic".to_string()
                        }
                    };
                    items.push(format!("{}={}", hex(k), r));
                }
                // a recovered store must also accept a write
                let w = match std::panic::catch_unwind(std::panic::AssertUnwindSafe(|| h.set(Bytes::from_static(b"__probe__"), Bytes::from_static(b"1")))) {
                    Ok(Ok(())) => "ok".to_string(),
                    Ok(Err(e)) => format!("err:{}", e).replace(' ', "_"),
                    Err(_) => "panic".to_string(),
                };
                // second life: acknowledged operations on the recovered store (a new key, an overwrite of the
                // first key, a delete of the second), then a third life that must read all of them
                let mut life3 = String::from("skipped");
                if !dead && w == "ok" {
                    let mut acks: Vec<(Vec<u8>, Option<Vec<u8>>)> = vec![(b"__life2__".to_vec(), Some(b"x".to_vec()))];
                    if let Some(k0) = keys.get(0) {
                        acks.push((k0.clone(), Some(b"__l2".to_vec())));
                    }
                    if let Some(k1) = keys.get(1) {
                        acks.push((k1.clone(), None));
                    }
                    let mut ok2 = true;
                    for (k, v) in &acks {
                        let r = std::panic::catch_unwind(std::panic::AssertUnwindSafe(|| match v {
                            Some(v) => h.set(Bytes::from(k.clone()), Bytes::from(v.clone())).map(|_| ()),
                            None => h.del(Bytes::from(k.clone())).map(|_| ()),
                        }));
                        if !matches!(r, Ok(Ok(()))) {
                            ok2 = false;
                        }
                    }
                    drop(h);
                    drop(kv);
                    life3 = if !ok2 {
                        "life2-op-failed".to_string()
                    } else {
                        match std::panic::catch_unwind(|| make_config(&c, &dir).open()) {
                            Ok(Ok(kv3)) => {
                                let h3 = kv3.get_handle();
                                let mut bad = Vec::new();
                                for (k, v) in &acks {
                                    let got = std::panic::catch_unwind(std::panic::AssertUnwindSafe(|| h3.get(Bytes::from(k.clone()))));
                                    let want = v.clone();
                                    match got {
                                        Ok(Ok(g)) => {
                                            if g.as_ref().map(|b| b.to_vec()) != want {
                                                bad.push(format!("{}:{}", hex(k), g.map(|b| hex(&b)).unwrap_or_else(|| "none".into())));
                                            }
                                        }
                                        _ => bad.push(format!("{}:error", hex(k))),
                                    }
                                }
                                // the untouched keys read as in the second life
                                for (i, k) in keys.iter().enumerate() {
                                    if i < 2 {
                                        continue;
                                    }
                                    let got = std::panic::catch_unwind(std::panic::AssertUnwindSafe(|| h3.get(Bytes::from(k.clone()))));
                                    let r = match got {
                                        Ok(Ok(Some(v))) => format!("some:{}", hex(&v)),
                                        Ok(Ok(None)) => "none".to_string(),
                                        _ => "error".to_string(),
                                    };
                                    if items.get(i).map(|s| s.as_str()) != Some(&format!("{}={}", hex(k), r)) {
                                        bad.push(format!("{}:{}", hex(k), r));
                                    }
                                }
                                if bad.is_empty() { "ok".to_string() } else { format!("lost:{}", bad.join(";")) }
                            }
                            Ok(Err(e)) => format!("open-err:{}", e).replace(' ', "_"),
                            Err(_) => "open-panic".to_string(),
                        }
                    };
                    return_line(&mut out, format!("open:ok {} write={} life3={}", items.join(","), w, life3));
                    continue;
                }
                format!("open:ok {} write={} life3={}", items.join(","), w, life3)
            }
            Ok(Err(e)) => format!("open:err:{}", e).replace(' ', "_"),
            Err(_) => "open:panic".to_string(),
        };
        writeln!(out, "{}", res).unwrap();
    }
    out.flush().unwrap();
    0
}
