pub fn main(_args: &[String]) -> i32 { eprintln!("store: not built yet"); 2 }
