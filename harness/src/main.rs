//! Correspondence harness for letung3105/bitcask: runs the real crate (built from /repo's working
//! tree with the `verif` feature) on case files produced by /verif/bin/check and prints one
//! canonical line per case / operation.  The same cases are evaluated by the Coq model; the
//! driver diffs the two outputs.

mod client;
mod conn;
mod resp;
mod sched;
mod server;
mod store;
mod util;

fn main() {
    let args: Vec<String> = std::env::args().collect();
    if args.len() < 2 {
        eprintln!("usage: bcharness <resp|conn|store|recover|server|...> [args]");
        std::process::exit(2);
    }
    let rest = &args[2..];
    let code = match args[1].as_str() {
        "resp" => resp::main(rest),
        "conn" => conn::main(rest),
        "client" => client::main(rest),
        "store" => store::main(rest),
        "recover" => store::recover_main(rest),
        "server" => server::main(rest),
        "sched" => sched::main(rest),
        m => {
            eprintln!("unknown mode {}", m);
            2
        }
    };
    std::process::exit(code);
}
