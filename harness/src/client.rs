//! `client` mode: the real `net::Client` against a scripted fake server on loopback.
//!
//! stdin:
//!   CASE <name>
//!   call <set k v | get k | del k k ...> | <request_len> <reply seg-hex> <reply seg-hex> ... [close]
//!        the fake server reads <request_len> bytes, prints them, then writes the segments one write (and a
//!        pause) each; `close` drops the connection afterwards.  Keys are hex of UTF-8 text.
//!   END
//! stdout per call: `Q <request bytes>` and `R <result>`; after a result that ends the session the
//! remaining calls are skipped.
use std::{
    io::{BufRead, Write},
    time::Duration,
};

use bitcask::net::{Client, Error};
use bytes::Bytes;
use tokio::{
    io::{AsyncReadExt, AsyncWriteExt},
    net::TcpListener,
    sync::mpsc,
    time::timeout,
};

use crate::util::{hex, quiet_panics, unhex};

struct Step {
    nreq: usize,
    segs: Vec<Vec<u8>>,
    close: bool,
}

/// canonical name of a client result; the bool says whether the session can go on
pub fn show_err(e: &Error) -> (String, bool) {
    match e {
        Error::Storage(e) => (format!("storage:{}", hex(e.to_string().as_bytes())), true),
        Error::Command(bitcask::net::command::Error::BadFrame(f)) => (format!("badframe:{}", crate::util::show_frame(f)), true),
        Error::Command(e) => (format!("command:{}", e), true),
        Error::Frame(e) => (
            format!(
                "frame:{}",
                match e {
                    bitcask::net::frame::Error::Incomplete => "Incomplete",
                    bitcask::net::frame::Error::BadEncoding => "BadEncoding",
                    bitcask::net::frame::Error::NotInteger(_) => "NotInteger",
                    bitcask::net::frame::Error::NotUtf8(_) => "NotUtf8",
                }
            ),
            false,
        ),
        Error::Io(e) if e.kind() == std::io::ErrorKind::ConnectionReset => ("reset".into(), false),
        Error::Io(e) => (format!("io:{}", e.kind()), false),
        Error::AsyncTask(_) => ("task".into(), false),
    }
}

/// one API call: `set k v | get k | del k ...`
pub async fn api_call(cl: &mut Client, words: &[&str]) -> (String, bool) {
    let key = |h: &str| String::from_utf8(unhex(h)).expect("keys are UTF-8");
    match words.first().copied() {
        Some("set") => match cl.set(key(words[1]), Bytes::from(unhex(words.get(2).copied().unwrap_or("-")))).await {
            Ok(()) => ("ok".into(), true),
            Err(e) => show_err(&e),
        },
        Some("get") => match cl.get(key(words[1])).await {
            Ok(Some(v)) => (format!("some:{}", hex(&v)), true),
            Ok(None) => ("none".into(), true),
            Err(e) => show_err(&e),
        },
        Some("del") => match cl.del(words[1..].iter().map(|h| key(h)).collect()).await {
            Ok(n) => (format!("int:{}", n), true),
            Err(e) => show_err(&e),
        },
        _ => ("badcall".into(), false),
    }
}

async fn run_case(calls: &[String], out: &mut dyn Write) {
    let listener = TcpListener::bind("127.0.0.1:0").await.unwrap();
    let port = listener.local_addr().unwrap().port();
    let (tx, mut rx) = mpsc::channel::<Step>(1);
    let (qtx, mut qrx) = mpsc::channel::<Vec<u8>>(1);
    let server = tokio::spawn(async move {
        let (mut s, _) = listener.accept().await.unwrap();
        let _ = s.set_nodelay(true);
        while let Some(step) = rx.recv().await {
            let mut got = vec![0u8; step.nreq];
            let mut have = 0;
            while have < step.nreq {
                match timeout(Duration::from_millis(3000), s.read(&mut got[have..])).await {
                    Ok(Ok(k)) if k > 0 => have += k,
                    _ => break,
                }
            }
            got.truncate(have);
            let _ = qtx.send(got).await;
            for seg in &step.segs {
                if s.write_all(seg).await.is_err() {
                    break;
                }
                let _ = s.flush().await;
                tokio::time::sleep(Duration::from_millis(1)).await;
            }
            if step.close {
                return;
            }
        }
    });
    let mut cl = match Client::connect(("127.0.0.1", port)).await {
        Ok(c) => c,
        Err(e) => {
            writeln!(out, "connect err:{}", e).unwrap();
            writeln!(out, "end").unwrap();
            return;
        }
    };
    for line in calls {
        let (call, script) = line.split_once('|').unwrap_or((line.as_str(), ""));
        let words: Vec<&str> = call.split_whitespace().skip(1).collect();
        let mut sw: Vec<&str> = script.split_whitespace().collect();
        let close = sw.last() == Some(&"close");
        if close {
            sw.pop();
        }
        let nreq: usize = sw.first().map(|x| x.parse().unwrap()).unwrap_or(0);
        let segs: Vec<Vec<u8>> = sw.iter().skip(1).map(|h| unhex(h)).filter(|v| !v.is_empty()).collect();
        if tx.send(Step { nreq, segs, close }).await.is_err() {
            writeln!(out, "R serverdown").unwrap();
            break;
        }
        let (res, go_on) = match timeout(Duration::from_millis(8000), api_call(&mut cl, &words)).await {
            Ok(r) => r,
            Err(_) => ("hang".into(), false),
        };
        match timeout(Duration::from_millis(4000), qrx.recv()).await {
            Ok(Some(q)) => writeln!(out, "Q {}", hex(&q)).unwrap(),
            _ => writeln!(out, "Q ?").unwrap(),
        }
        writeln!(out, "R {}", res).unwrap();
        if !go_on {
            break;
        }
    }
    drop(tx);
    drop(cl);
    let _ = timeout(Duration::from_millis(2000), server).await;
    writeln!(out, "end").unwrap();
}

pub fn main(_args: &[String]) -> i32 {
    quiet_panics();
    let rt = tokio::runtime::Builder::new_multi_thread().worker_threads(2).enable_all().build().unwrap();
    let stdin = std::io::stdin();
    let stdout = std::io::stdout();
    let mut out = std::io::BufWriter::new(stdout.lock());
    let mut calls: Vec<String> = Vec::new();
    let mut name: Option<String> = None;
    for line in stdin.lock().lines() {
        let line = line.unwrap();
        if line.starts_with("CASE") {
            name = Some(line.split_whitespace().nth(1).unwrap_or("?").to_string());
            calls.clear();
        } else if line.trim() == "END" {
            if let Some(n) = name.take() {
                writeln!(out, "case {}", n).unwrap();
                rt.block_on(run_case(&calls, &mut out));
                out.flush().unwrap();
            }
        } else if !line.trim().is_empty() {
            calls.push(line);
        }
    }
    0
}
