//! `server` mode: the real `Server::run` on a loopback port over a real store, driven by scripted
//! clients.
//!
//! stdin:
//!   CASE <name> maxconn=<n> [mfs=<n>] [syncms=..]
//!   conn <id>                         open a client connection (TCP_NODELAY)
//!   tryconn <id> <timeout_ms>         open a connection and report whether the server SERVES it within
//!                                     the timeout (sends GET of a probe key and waits for the reply)
//!   send <id> <hex> [pause_ms]        one write call with these bytes, then pause
//!   sendbytes <id> <hex> <pause_us>   one write call per byte
//!   recv <id> <n|eof> <timeout_ms>    read n bytes, or until end of stream; prints what was read
//!   half <id>                         shut down the write side (the server sees EOF)
//!   close <id>                        drop the connection
//!   shutdown                          fire the shutdown signal
//!   waitrun <timeout_ms>              wait for Server::run to return
//!   storeget <key>                    read the store directly
//!   storeset <key> <value>            write the store directly
//!   merge                             run a merge pass (verif hook)
//!   alive                             is the server task still running?
//!   sleep <ms>
//!   api <id> connect | set k v | get k | del k ...     the crate's own `net::Client` against this server
//!   END
use std::{
    collections::HashMap,
    io::{BufRead, Write},
    path::PathBuf,
    time::Duration,
};

use bitcask::storage::{bitcask::Handle, KeyValueStorage};
use bytes::Bytes;
use tokio::{
    io::{AsyncReadExt, AsyncWriteExt},
    net::TcpStream,
    sync::oneshot,
    task::JoinHandle,
    time::timeout,
};

use crate::{
    store::{make_config, parse_case, CaseCfg},
    util::{hex, quiet_panics, unhex},
};

fn free_port() -> u16 {
    let l = std::net::TcpListener::bind("127.0.0.1:0").unwrap();
    l.local_addr().unwrap().port()
}

struct Running {
    port: u16,
    handle: Handle,
    _kv: bitcask::storage::bitcask::Bitcask,
    shutdown_tx: Option<oneshot::Sender<()>>,
    run: Option<JoinHandle<()>>,
    done: std::sync::Arc<std::sync::atomic::AtomicBool>,
}

static MAX_BACKOFF_MS: std::sync::atomic::AtomicU64 = std::sync::atomic::AtomicU64::new(8);

async fn start(c: &CaseCfg, maxconn: usize, dir: &PathBuf) -> Result<Running, String> {
    let kv = make_config(c, dir).open().map_err(|e| e.to_string())?;
    let handle = kv.get_handle();
    for _ in 0..20 {
        let port = free_port();
        let mut conf = bitcask::net::Config::default();
        conf.host = "127.0.0.1".parse().unwrap();
        conf.port = port;
        conf.max_connections = maxconn;
        conf.min_backoff_ms = 1;
        conf.max_backoff_ms = MAX_BACKOFF_MS.load(std::sync::atomic::Ordering::SeqCst);
        let (tx, rx) = oneshot::channel::<()>();
        match bitcask::net::Server::new(handle.clone(), async { let _ = rx.await; }, conf).await {
            Ok(server) => {
                let done = std::sync::Arc::new(std::sync::atomic::AtomicBool::new(false));
                let d2 = done.clone();
                let run = tokio::spawn(async move {
                    server.run().await;
                    d2.store(true, std::sync::atomic::Ordering::SeqCst);
                });
                return Ok(Running { port, handle, _kv: kv, shutdown_tx: Some(tx), run: Some(run), done });
            }
            Err(_) => continue,
        }
    }
    Err("could not bind".into())
}

async fn read_n(s: &mut TcpStream, n: Option<usize>, ms: u64) -> (Vec<u8>, &'static str) {
    let mut out = Vec::new();
    let mut buf = vec![0u8; 65536];
    let deadline = tokio::time::Instant::now() + Duration::from_millis(ms);
    loop {
        if let Some(n) = n {
            if out.len() >= n {
                return (out, "ok");
            }
        }
        let want = match n {
            Some(n) => std::cmp::min(buf.len(), n - out.len()),
            None => buf.len(),
        };
        match tokio::time::timeout_at(deadline, s.read(&mut buf[..want])).await {
            Err(_) => return (out, "timeout"),
            Ok(Ok(0)) => return (out, "eof"),
            Ok(Ok(k)) => out.extend_from_slice(&buf[..k]),
            Ok(Err(_)) => return (out, "reset"),
        }
    }
}

async fn run_case(c: &CaseCfg, maxconn: usize, ops: &[String], out: &mut dyn Write, scratch: &PathBuf) {
    let dir = scratch.join(&c.name);
    let _ = std::fs::remove_dir_all(&dir);
    std::fs::create_dir_all(&dir).unwrap();
    bitcask::verif::set_clock(1);
    crate::store::mark(&format!("case {}", c.name));
    let mut srv = match start(c, maxconn, &dir).await {
        Ok(s) => {
            writeln!(out, "start ok").unwrap();
            s
        }
        Err(e) => {
            writeln!(out, "start err:{}", e).unwrap();
            for _ in ops {
                writeln!(out, "abandoned").unwrap();
            }
            writeln!(out, "end").unwrap();
            return;
        }
    };
    let mut conns: HashMap<String, TcpStream> = HashMap::new();
    let mut socks: HashMap<String, tokio::net::TcpSocket> = HashMap::new();
    let mut apis: HashMap<String, bitcask::net::Client> = HashMap::new();
    for line in ops {
        let mut it = line.split_whitespace();
        let cmd = it.next().unwrap_or("");
        let res: String = match cmd {
            "conn" => {
                let id = it.next().unwrap().to_string();
                match timeout(Duration::from_millis(2000), TcpStream::connect(("127.0.0.1", srv.port))).await {
                    Ok(Ok(s)) => {
                        let _ = s.set_nodelay(true);
                        conns.insert(id, s);
                        "ok".into()
                    }
                    Ok(Err(e)) => format!("err:{}", e.kind()),
                    Err(_) => "timeout".into(),
                }
            }
            "tryconn" => {
                let id = it.next().unwrap().to_string();
                let ms: u64 = it.next().unwrap().parse().unwrap();
                match timeout(Duration::from_millis(2000), TcpStream::connect(("127.0.0.1", srv.port))).await {
                    Ok(Ok(mut s)) => {
                        let _ = s.set_nodelay(true);
                        let _ = s.write_all(b"*2\r\n$3\r\nGET\r\n$9\r\n__probe__\r\n").await;
                        let (got, st) = read_n(&mut s, Some(5), ms).await;
                        conns.insert(id, s);
                        if st == "ok" && got == b"$-1\r\n" {
                            "served".into()
                        } else {
                            format!("notserved:{}", st)
                        }
                    }
                    Ok(Err(e)) => format!("err:{}", e.kind()),
                    Err(_) => "timeout".into(),
                }
            }
            "send" => {
                let id = it.next().unwrap();
                let data = unhex(it.next().unwrap_or("-"));
                let pause: u64 = it.next().map(|x| x.parse().unwrap()).unwrap_or(0);
                match conns.get_mut(id) {
                    Some(s) => {
                        let r = s.write_all(&data).await;
                        if pause > 0 {
                            tokio::time::sleep(Duration::from_millis(pause)).await;
                        }
                        match r {
                            Ok(()) => "ok".into(),
                            Err(e) => format!("err:{}", e.kind()),
                        }
                    }
                    None => "noconn".into(),
                }
            }
            "sendbytes" => {
                let id = it.next().unwrap();
                let data = unhex(it.next().unwrap_or("-"));
                let pause: u64 = it.next().map(|x| x.parse().unwrap()).unwrap_or(200);
                match conns.get_mut(id) {
                    Some(s) => {
                        let mut r = Ok(());
                        for b in data {
                            r = s.write_all(&[b]).await;
                            if r.is_err() {
                                break;
                            }
                            tokio::time::sleep(Duration::from_micros(pause)).await;
                        }
                        match r {
                            Ok(()) => "ok".into(),
                            Err(e) => format!("err:{}", e.kind()),
                        }
                    }
                    None => "noconn".into(),
                }
            }
            "recv" => {
                let id = it.next().unwrap();
                let n = it.next().unwrap();
                let ms: u64 = it.next().unwrap().parse().unwrap();
                let n = if n == "eof" { None } else { Some(n.parse::<usize>().unwrap()) };
                match conns.get_mut(id) {
                    Some(s) => {
                        let (got, st) = read_n(s, n, ms).await;
                        format!("{}:{}:{}", st, got.len(), hex(&got))
                    }
                    None => "noconn".into(),
                }
            }
            "api" => {
                let id = it.next().unwrap().to_string();
                let words: Vec<&str> = it.collect();
                if words.first() == Some(&"connect") {
                    match timeout(Duration::from_millis(2000), bitcask::net::Client::connect(("127.0.0.1", srv.port))).await {
                        Ok(Ok(c)) => {
                            apis.insert(id, c);
                            "ok".into()
                        }
                        Ok(Err(e)) => format!("err:{}", e),
                        Err(_) => "timeout".into(),
                    }
                } else {
                    match apis.get_mut(&id) {
                        Some(c) => match timeout(Duration::from_millis(8000), crate::client::api_call(c, &words)).await {
                            Ok((r, _)) => r,
                            Err(_) => "hang".into(),
                        },
                        None => "noconn".into(),
                    }
                }
            }
            "half" => match conns.get_mut(it.next().unwrap()) {
                Some(s) => {
                    let _ = s.shutdown().await;
                    "ok".into()
                }
                None => "noconn".into(),
            },
            "close" => {
                conns.remove(it.next().unwrap());
                "ok".into()
            }
            "abort" => {
                // reset the connection: close with SO_LINGER = 0
                match conns.remove(it.next().unwrap()) {
                    Some(s) => {
                        let _ = s.set_linger(Some(Duration::from_secs(0)));
                        drop(s);
                        "ok".into()
                    }
                    None => "noconn".into(),
                }
            }
            "shutdown" => {
                if let Some(tx) = srv.shutdown_tx.take() {
                    let _ = tx.send(());
                }
                "ok".into()
            }
            "waitrun" => {
                let ms: u64 = it.next().unwrap().parse().unwrap();
                match srv.run.as_mut() {
                    Some(h) => {
                        let t0 = std::time::Instant::now();
                        match timeout(Duration::from_millis(ms), h).await {
                            Ok(Ok(())) => {
                                srv.run = None;
                                format!("returned:{}", if t0.elapsed().as_millis() < 1000 { "fast" } else { "slow" })
                            }
                            Ok(Err(_)) => {
                                srv.run = None;
                                "panicked".into()
                            }
                            Err(_) => "timeout".into(),
                        }
                    }
                    None => "returned:already".into(),
                }
            }
            "alive" => {
                if srv.done.load(std::sync::atomic::Ordering::SeqCst) {
                    "finished".into()
                } else {
                    "running".into()
                }
            }
            "storeget" => {
                let k = Bytes::from(unhex(it.next().unwrap()));
                let h = srv.handle.clone();
                match tokio::task::spawn_blocking(move || h.get(k)).await {
                    Ok(Ok(Some(v))) => format!("some:{}", hex(&v)),
                    Ok(Ok(None)) => "none".into(),
                    Ok(Err(e)) => format!("err:{}", e),
                    Err(_) => "panic".into(),
                }
            }
            "storeset" => {
                let k = Bytes::from(unhex(it.next().unwrap()));
                let v = Bytes::from(unhex(it.next().unwrap_or("-")));
                let h = srv.handle.clone();
                match tokio::task::spawn_blocking(move || h.set(k, v)).await {
                    Ok(Ok(())) => "ok".into(),
                    Ok(Err(e)) => format!("err:{}", e),
                    Err(_) => "panic".into(),
                }
            }
            "merge" => {
                let h = srv.handle.clone();
                match tokio::task::spawn_blocking(move || h.verif_merge()).await {
                    Ok(Ok(())) => "ok".into(),
                    Ok(Err(e)) => format!("err:{}", e),
                    Err(_) => "panic".into(),
                }
            }
            "sleep" => {
                tokio::time::sleep(Duration::from_millis(it.next().unwrap().parse().unwrap())).await;
                "ok".into()
            }
            "parkany" => {
                // the nth time ANY thread reaches <point> it sleeps <ms> (timed parking inside the store)
                let point = it.next().unwrap().to_string();
                let ms: u64 = it.next().unwrap().parse().unwrap();
                let nth: usize = it.next().map(|x| x.parse().unwrap()).unwrap_or(1);
                let seen = std::sync::Arc::new(std::sync::atomic::AtomicUsize::new(0));
                bitcask::verif::set_point_callback(Some(std::sync::Arc::new(move |name: &'static str| {
                    if name == point {
                        let k = seen.fetch_add(1, std::sync::atomic::Ordering::SeqCst) + 1;
                        if k == nth {
                            std::thread::sleep(Duration::from_millis(ms));
                        }
                    }
                })));
                "ok".into()
            }
            "presock" => {
                // allocate the client's socket now (it keeps its descriptor), connect later with connsock
                let id = it.next().unwrap().to_string();
                match tokio::net::TcpSocket::new_v4() {
                    Ok(sk) => {
                        socks.insert(id, sk);
                        "ok".into()
                    }
                    Err(e) => format!("err:{}", e.kind()),
                }
            }
            "connsock" => {
                let id = it.next().unwrap().to_string();
                match socks.remove(&id) {
                    Some(sk) => match timeout(Duration::from_millis(2000), sk.connect(std::net::SocketAddr::from(([127, 0, 0, 1], srv.port)))).await {
                        Ok(Ok(st)) => {
                            let _ = st.set_nodelay(true);
                            conns.insert(id, st);
                            "ok".into()
                        }
                        Ok(Err(e)) => format!("err:{}", e.kind()),
                        Err(_) => "timeout".into(),
                    },
                    None => "nosock".into(),
                }
            }
            "panicany" => {
                // the nth time ANY thread reaches <point> it panics (a panic inside the storage operation of a command)
                let point = it.next().unwrap().to_string();
                let nth: usize = it.next().map(|x| x.parse().unwrap()).unwrap_or(1);
                let every = nth == 0;
                let seen = std::sync::Arc::new(std::sync::atomic::AtomicUsize::new(0));
                bitcask::verif::set_point_callback(Some(std::sync::Arc::new(move |name: &'static str| {
                    if name == point {
                        let k = seen.fetch_add(1, std::sync::atomic::Ordering::SeqCst) + 1;
                        if every || k == nth {
                            panic!("injected panic at {}", name);
                        }
                    }
                })));
                "ok".into()
            }
            "nopoints" => {
                bitcask::verif::set_point_callback(None);
                "ok".into()
            }
            "fdexhaust" => {
                // use up every file descriptor of the process for <ms> milliseconds, in the background (accept() then fails with EMFILE)
                let ms: u64 = it.next().unwrap().parse().unwrap();
                std::thread::spawn(move || {
                    let mut held = Vec::new();
                    loop {
                        match std::fs::File::open("/dev/null") {
                            Ok(f) => held.push(f),
                            Err(_) => break,
                        }
                        if held.len() > 1_100_000 {
                            break;
                        }
                    }
                    std::thread::sleep(Duration::from_millis(ms));
                    drop(held);
                });
                "ok".into()
            }
            "flood" => {
                // <n> connections that keep pipelining SET commands (32 per write, replies drained) for <ms> milliseconds,
                // in the background: the next operations run while they flood
                let n: u64 = it.next().unwrap().parse().unwrap();
                let ms: u64 = it.next().unwrap().parse().unwrap();
                for c in 0..n {
                    let port = srv.port;
                    tokio::spawn(async move {
                        let mut s = match TcpStream::connect(("127.0.0.1", port)).await {
                            Ok(s) => s,
                            Err(_) => return,
                        };
                        let _ = s.set_nodelay(true);
                        let (mut rd, mut wr) = s.into_split();
                        let drain = tokio::spawn(async move {
                            let mut buf = vec![0u8; 65536];
                            loop {
                                match rd.read(&mut buf).await {
                                    Ok(0) | Err(_) => break,
                                    Ok(_) => {}
                                }
                            }
                        });
                        let one = format!("*3\r\n$3\r\nSET\r\n$6\r\nflood{}\r\n$1\r\nx\r\n", c % 10);
                        let batch = one.repeat(32).into_bytes();
                        let deadline = std::time::Instant::now() + Duration::from_millis(ms);
                        while std::time::Instant::now() < deadline {
                            if wr.write_all(&batch).await.is_err() {
                                break;
                            }
                        }
                        drop(wr);
                        let _ = drain.await;
                    });
                }
                "ok".into()
            }
            "clients" => {
                // <n> concurrent connections, each issuing <ops> random single-key commands and waiting for
                // each reply; merges every <ms> (0 = none).  Prints the timed history.
                let n: u64 = it.next().unwrap().parse().unwrap();
                let nops: u64 = it.next().unwrap().parse().unwrap();
                let nkeys: u64 = it.next().unwrap().parse().unwrap();
                let seed: u64 = it.next().unwrap().parse().unwrap();
                let merge_ms: u64 = it.next().unwrap().parse().unwrap();
                let t0 = std::time::Instant::now();
                let stop = std::sync::Arc::new(std::sync::atomic::AtomicBool::new(false));
                let merger = if merge_ms > 0 {
                    let h = srv.handle.clone();
                    let stop = stop.clone();
                    Some(tokio::spawn(async move {
                        while !stop.load(std::sync::atomic::Ordering::SeqCst) {
                            tokio::time::sleep(Duration::from_millis(merge_ms)).await;
                            let hh = h.clone();
                            let _ = tokio::task::spawn_blocking(move || hh.verif_merge()).await;
                        }
                    }))
                } else {
                    None
                };
                let mut tasks = Vec::new();
                for c in 0..n {
                    let port = srv.port;
                    tasks.push(tokio::spawn(async move {
                        let mut lines: Vec<String> = Vec::new();
                        let mut s = match TcpStream::connect(("127.0.0.1", port)).await {
                            Ok(s) => s,
                            Err(e) => return vec![format!("H c{} 0 connect - = err:{} @0 0", c, e.kind())],
                        };
                        let _ = s.set_nodelay(true);
                        let mut st = seed.wrapping_mul(7919).wrapping_add(c);
                        let mut next = move || {
                            st = st.wrapping_add(0x9E3779B97F4A7C15);
                            let mut z = st;
                            z = (z ^ (z >> 30)).wrapping_mul(0xBF58476D1CE4E5B9);
                            z = (z ^ (z >> 27)).wrapping_mul(0x94D049BB133111EB);
                            z ^ (z >> 31)
                        };
                        for i in 0..nops {
                            let k = format!("k{}", next() % nkeys);
                            let x = next() % 10;
                            let (req, show, want_len): (Vec<u8>, String, Option<usize>) = if x < 4 {
                                let v = format!("c{}i{}{}", c, i, ".".repeat([0usize, 0, 40, 9000][(next() % 4) as usize]));
                                (format!("*3\r\n$3\r\nSET\r\n${}\r\n{}\r\n${}\r\n{}\r\n", k.len(), k, v.len(), v).into_bytes(),
                                 format!("set {} {}", hex(k.as_bytes()), hex(v.as_bytes())), Some(5))
                            } else if x < 9 {
                                (format!("*2\r\n$3\r\nGET\r\n${}\r\n{}\r\n", k.len(), k).into_bytes(), format!("get {}", hex(k.as_bytes())), None)
                            } else {
                                (format!("*2\r\n$3\r\nDEL\r\n${}\r\n{}\r\n", k.len(), k).into_bytes(), format!("del {}", hex(k.as_bytes())), Some(4))
                            };
                            let a = t0.elapsed().as_nanos();
                            if s.write_all(&req).await.is_err() {
                                lines.push(format!("H c{} {} {} = err:write @{} {}", c, i, show, a, t0.elapsed().as_nanos()));
                                break;
                            }
                            // read one reply
                            let res: String = match want_len {
                                Some(n) => {
                                    let (got, st) = read_n(&mut s, Some(n), 10000).await;
                                    if st != "ok" {
                                        format!("err:{}", st)
                                    } else if got == b"+OK\r\n" {
                                        "ok".into()
                                    } else if got == b":1\r\n" {
                                        "true".into()
                                    } else if got == b":0\r\n" {
                                        "false".into()
                                    } else {
                                        format!("err:reply:{}", hex(&got))
                                    }
                                }
                                None => {
                                    // bulk or null: read the header line first
                                    let mut head = Vec::new();
                                    let mut status = "ok";
                                    loop {
                                        let (b, st) = read_n(&mut s, Some(1), 10000).await;
                                        if st != "ok" {
                                            status = st;
                                            break;
                                        }
                                        head.push(b[0]);
                                        if head.ends_with(b"\r\n") {
                                            break;
                                        }
                                    }
                                    if status != "ok" {
                                        format!("err:{}", status)
                                    } else if head == b"$-1\r\n" {
                                        "none".into()
                                    } else if head.first() == Some(&b'$') {
                                        let len: usize = std::str::from_utf8(&head[1..head.len() - 2]).ok().and_then(|x| x.parse().ok()).unwrap_or(0);
                                        let (body, st) = read_n(&mut s, Some(len + 2), 10000).await;
                                        if st == "ok" {
                                            format!("some:{}", hex(&body[..len]))
                                        } else {
                                            format!("err:{}", st)
                                        }
                                    } else {
                                        format!("err:reply:{}", hex(&head))
                                    }
                                }
                            };
                            let b = t0.elapsed().as_nanos();
                            let failed = res.starts_with("err");
                            lines.push(format!("H c{} {} {} = {} @{} {}", c, i, show, res, a, b));
                            if failed {
                                break;
                            }
                        }
                        lines
                    }));
                }
                for t in tasks {
                    match timeout(Duration::from_millis(60000), t).await {
                        Ok(Ok(lines)) => {
                            for l in lines {
                                writeln!(out, "{}", l).unwrap();
                            }
                        }
                        _ => writeln!(out, "H cx 0 client - = err:hang @0 0").unwrap(),
                    }
                }
                stop.store(true, std::sync::atomic::Ordering::SeqCst);
                if let Some(m) = merger {
                    let _ = timeout(Duration::from_millis(5000), m).await;
                }
                "clientsdone".into()
            }
            _ => "badop".into(),
        };
        writeln!(out, "{}", res).unwrap();
    }
    crate::store::mark("end");
    conns.clear();
    apis.clear();
    if let Some(tx) = srv.shutdown_tx.take() {
        let _ = tx.send(());
    }
    if let Some(h) = srv.run.take() {
        let _ = timeout(Duration::from_millis(3000), h).await;
    }
    drop(srv);
    writeln!(out, "end").unwrap();
    out.flush().unwrap();
    let _ = std::fs::remove_dir_all(&dir);
}

pub fn main(_args: &[String]) -> i32 {
    quiet_panics();
    let scratch = PathBuf::from(format!("/dev/shm/bcv-srv-{}", std::process::id()));
    std::fs::create_dir_all(&scratch).unwrap();
    let rt = tokio::runtime::Builder::new_multi_thread().worker_threads(4).enable_all().build().unwrap();
    let stdin = std::io::stdin();
    let stdout = std::io::stdout();
    let mut out = std::io::BufWriter::new(stdout.lock());
    let mut cur: Option<(CaseCfg, usize)> = None;
    let mut ops: Vec<String> = Vec::new();
    for line in stdin.lock().lines() {
        let line = line.unwrap();
        if line.starts_with("CASE") {
            // maxconn is ours, the rest is the store configuration
            let mut maxconn = 128usize;
            MAX_BACKOFF_MS.store(8, std::sync::atomic::Ordering::SeqCst);
            let filtered: Vec<&str> = line
                .split_whitespace()
                .filter(|kv| {
                    if let Some(v) = kv.strip_prefix("maxconn=") {
                        maxconn = v.parse().unwrap();
                        false
                    } else if let Some(v) = kv.strip_prefix("backoffmax=") {
                        MAX_BACKOFF_MS.store(v.parse().unwrap(), std::sync::atomic::Ordering::SeqCst);
                        false
                    } else {
                        true
                    }
                })
                .collect();
            cur = Some((parse_case(&filtered.join(" ")), maxconn));
            ops.clear();
        } else if line.trim() == "END" {
            if let Some((c, maxconn)) = cur.take() {
                writeln!(out, "case {}", c.name).unwrap();
                rt.block_on(run_case(&c, maxconn, &ops, &mut out, &scratch));
            }
        } else if !line.trim().is_empty() {
            ops.push(line);
        }
    }
    let _ = std::fs::remove_dir_all(&scratch);
    0
}
