pub fn main(_args: &[String]) -> i32 { eprintln!("server: not built yet"); 2 }
