//! `server` mode: the real `Server::run` on a loopback port over a real store, driven by scripted
//! clients.
//!
//! stdin:
//!   CASE <name> maxconn=<n> [mfs=<n>] [syncms=..]
//!   conn <id>                         open a client connection (TCP_NODELAY)
//!   tryconn <id> <timeout_ms>         open a connection and report whether the server SERVES it within
//!                                     the timeout (sends GET of a probe key and waits for the reply)
//!   send <id> <hex> [pause_ms]        one write call with these bytes, then pause
//!   sendbytes <id> <hex> <pause_us>   one write call per byte
//!   recv <id> <n|eof> <timeout_ms>    read n bytes, or until end of stream; prints what was read
//!   half <id>                         shut down the write side (the server sees EOF)
//!   close <id>                        drop the connection
//!   shutdown                          fire the shutdown signal
//!   waitrun <timeout_ms>              wait for Server::run to return
//!   storeget <key>                    read the store directly
//!   storeset <key> <value>            write the store directly
//!   merge                             run a merge pass (verif hook)
//!   alive                             is the server task still running?
//!   sleep <ms>
//!   END
use std::{
    collections::HashMap,
    io::{BufRead, Write},
    path::PathBuf,
    time::Duration,
};

use bitcask::storage::{bitcask::Handle, KeyValueStorage};
use bytes::Bytes;
use tokio::{
    io::{AsyncReadExt, AsyncWriteExt},
    net::TcpStream,
    sync::oneshot,
    task::JoinHandle,
    time::timeout,
};

use crate::{
    store::{make_config, parse_case, CaseCfg},
    util::{hex, quiet_panics, unhex},
};

fn free_port() -> u16 {
    let l = std::net::TcpListener::bind("127.0.0.1:0").unwrap();
    l.local_addr().unwrap().port()
}

struct Running {
    port: u16,
    handle: Handle,
    _kv: bitcask::storage::bitcask::Bitcask,
    shutdown_tx: Option<oneshot::Sender<()>>,
    run: Option<JoinHandle<()>>,
    done: std::sync::Arc<std::sync::atomic::AtomicBool>,
}

async fn start(c: &CaseCfg, maxconn: usize, dir: &PathBuf) -> Result<Running, String> {
    let kv = make_config(c, dir).open().map_err(|e| e.to_string())?;
    let handle = kv.get_handle();
    for _ in 0..20 {
        let port = free_port();
        let mut conf = bitcask::net::Config::default();
        conf.host = "127.0.0.1".parse().unwrap();
        conf.port = port;
        conf.max_connections = maxconn;
        conf.min_backoff_ms = 1;
        conf.max_backoff_ms = 8;
        let (tx, rx) = oneshot::channel::<()>();
        match bitcask::net::Server::new(handle.clone(), async { let _ = rx.await; }, conf).await {
            Ok(server) => {
                let done = std::sync::Arc::new(std::sync::atomic::AtomicBool::new(false));
                let d2 = done.clone();
                let run = tokio::spawn(async move {
                    server.run().await;
                    d2.store(true, std::sync::atomic::Ordering::SeqCst);
                });
                return Ok(Running { port, handle, _kv: kv, shutdown_tx: Some(tx), run: Some(run), done });
            }
            Err(_) => continue,
        }
    }
    Err("could not bind".into())
}

async fn read_n(s: &mut TcpStream, n: Option<usize>, ms: u64) -> (Vec<u8>, &'static str) {
    let mut out = Vec::new();
    let mut buf = vec![0u8; 65536];
    let deadline = tokio::time::Instant::now() + Duration::from_millis(ms);
    loop {
        if let Some(n) = n {
            if out.len() >= n {
                return (out, "ok");
            }
        }
        let want = match n {
            Some(n) => std::cmp::min(buf.len(), n - out.len()),
            None => buf.len(),
        };
        match tokio::time::timeout_at(deadline, s.read(&mut buf[..want])).await {
            Err(_) => return (out, "timeout"),
            Ok(Ok(0)) => return (out, "eof"),
            Ok(Ok(k)) => out.extend_from_slice(&buf[..k]),
            Ok(Err(_)) => return (out, "reset"),
        }
    }
}

async fn run_case(c: &CaseCfg, maxconn: usize, ops: &[String], out: &mut dyn Write, scratch: &PathBuf) {
    let dir = scratch.join(&c.name);
    let _ = std::fs::remove_dir_all(&dir);
    std::fs::create_dir_all(&dir).unwrap();
    bitcask::verif::set_clock(1);
    let mut srv = match start(c, maxconn, &dir).await {
        Ok(s) => {
            writeln!(out, "start ok").unwrap();
            s
        }
        Err(e) => {
            writeln!(out, "start err:{}", e).unwrap();
            for _ in ops {
                writeln!(out, "abandoned").unwrap();
            }
            writeln!(out, "end").unwrap();
            return;
        }
    };
    let mut conns: HashMap<String, TcpStream> = HashMap::new();
    for line in ops {
        let mut it = line.split_whitespace();
        let cmd = it.next().unwrap_or("");
        let res: String = match cmd {
            "conn" => {
                let id = it.next().unwrap().to_string();
                match timeout(Duration::from_millis(2000), TcpStream::connect(("127.0.0.1", srv.port))).await {
                    Ok(Ok(s)) => {
                        let _ = s.set_nodelay(true);
                        conns.insert(id, s);
                        "ok".into()
                    }
                    Ok(Err(e)) => format!("err:{}", e.kind()),
                    Err(_) => "timeout".into(),
                }
            }
            "tryconn" => {
                let id = it.next().unwrap().to_string();
                let ms: u64 = it.next().unwrap().parse().unwrap();
                match timeout(Duration::from_millis(2000), TcpStream::connect(("127.0.0.1", srv.port))).await {
                    Ok(Ok(mut s)) => {
                        let _ = s.set_nodelay(true);
                        let _ = s.write_all(b"*2\r\n$3\r\nGET\r\n$9\r\n__probe__\r\n").await;
                        let (got, st) = read_n(&mut s, Some(5), ms).await;
                        conns.insert(id, s);
                        if st == "ok" && got == b"$-1\r\n" {
                            "served".into()
                        } else {
                            format!("notserved:{}", st)
                        }
                    }
                    Ok(Err(e)) => format!("err:{}", e.kind()),
                    Err(_) => "timeout".into(),
                }
            }
            "send" => {
                let id = it.next().unwrap();
                let data = unhex(it.next().unwrap_or("-"));
                let pause: u64 = it.next().map(|x| x.parse().unwrap()).unwrap_or(0);
                match conns.get_mut(id) {
                    Some(s) => {
                        let r = s.write_all(&data).await;
                        if pause > 0 {
                            tokio::time::sleep(Duration::from_millis(pause)).await;
                        }
                        match r {
                            Ok(()) => "ok".into(),
                            Err(e) => format!("err:{}", e.kind()),
                        }
                    }
                    None => "noconn".into(),
                }
            }
            "sendbytes" => {
                let id = it.next().unwrap();
                let data = unhex(it.next().unwrap_or("-"));
                let pause: u64 = it.next().map(|x| x.parse().unwrap()).unwrap_or(200);
                match conns.get_mut(id) {
                    Some(s) => {
                        let mut r = Ok(());
                        for b in data {
                            r = s.write_all(&[b]).await;
                            if r.is_err() {
                                break;
                            }
                            tokio::time::sleep(Duration::from_micros(pause)).await;
                        }
                        match r {
                            Ok(()) => "ok".into(),
                            Err(e) => format!("err:{}", e.kind()),
                        }
                    }
                    None => "noconn".into(),
                }
            }
            "recv" => {
                let id = it.next().unwrap();
                let n = it.next().unwrap();
                let ms: u64 = it.next().unwrap().parse().unwrap();
                let n = if n == "eof" { None } else { Some(n.parse::<usize>().unwrap()) };
                match conns.get_mut(id) {
                    Some(s) => {
                        let (got, st) = read_n(s, n, ms).await;
                        format!("{}:{}:{}", st, got.len(), hex(&got))
                    }
                    None => "noconn".into(),
                }
            }
            "half" => match conns.get_mut(it.next().unwrap()) {
                Some(s) => {
                    let _ = s.shutdown().await;
                    "ok".into()
                }
                None => "noconn".into(),
            },
            "close" => {
                conns.remove(it.next().unwrap());
                "ok".into()
            }
            "shutdown" => {
                if let Some(tx) = srv.shutdown_tx.take() {
                    let _ = tx.send(());
                }
                "ok".into()
            }
            "waitrun" => {
                let ms: u64 = it.next().unwrap().parse().unwrap();
                match srv.run.as_mut() {
                    Some(h) => {
                        let t0 = std::time::Instant::now();
                        match timeout(Duration::from_millis(ms), h).await {
                            Ok(Ok(())) => {
                                srv.run = None;
                                format!("returned:{}", if t0.elapsed().as_millis() < 1000 { "fast" } else { "slow" })
                            }
                            Ok(Err(_)) => {
                                srv.run = None;
                                "panicked".into()
                            }
                            Err(_) => "timeout".into(),
                        }
                    }
                    None => "returned:already".into(),
                }
            }
            "alive" => {
                if srv.done.load(std::sync::atomic::Ordering::SeqCst) {
                    "finished".into()
                } else {
                    "running".into()
                }
            }
            "storeget" => {
                let k = Bytes::from(unhex(it.next().unwrap()));
                let h = srv.handle.clone();
                match tokio::task::spawn_blocking(move || h.get(k)).await {
                    Ok(Ok(Some(v))) => format!("some:{}", hex(&v)),
                    Ok(Ok(None)) => "none".into(),
                    Ok(Err(e)) => format!("err:{}", e),
                    Err(_) => "panic".into(),
                }
            }
            "storeset" => {
                let k = Bytes::from(unhex(it.next().unwrap()));
                let v = Bytes::from(unhex(it.next().unwrap_or("-")));
                let h = srv.handle.clone();
                match tokio::task::spawn_blocking(move || h.set(k, v)).await {
                    Ok(Ok(())) => "ok".into(),
                    Ok(Err(e)) => format!("err:{}", e),
                    Err(_) => "panic".into(),
                }
            }
            "merge" => {
                let h = srv.handle.clone();
                match tokio::task::spawn_blocking(move || h.verif_merge()).await {
                    Ok(Ok(())) => "ok".into(),
                    Ok(Err(e)) => format!("err:{}", e),
                    Err(_) => "panic".into(),
                }
            }
            "sleep" => {
                tokio::time::sleep(Duration::from_millis(it.next().unwrap().parse().unwrap())).await;
                "ok".into()
            }
            _ => "badop".into(),
        };
        writeln!(out, "{}", res).unwrap();
    }
    conns.clear();
    if let Some(tx) = srv.shutdown_tx.take() {
        let _ = tx.send(());
    }
    if let Some(h) = srv.run.take() {
        let _ = timeout(Duration::from_millis(3000), h).await;
    }
    drop(srv);
    writeln!(out, "end").unwrap();
    out.flush().unwrap();
    let _ = std::fs::remove_dir_all(&dir);
}

pub fn main(_args: &[String]) -> i32 {
    quiet_panics();
    let scratch = PathBuf::from(format!("/dev/shm/bcv-srv-{}", std::process::id()));
    std::fs::create_dir_all(&scratch).unwrap();
    let rt = tokio::runtime::Builder::new_multi_thread().worker_threads(4).enable_all().build().unwrap();
    let stdin = std::io::stdin();
    let stdout = std::io::stdout();
    let mut out = std::io::BufWriter::new(stdout.lock());
    let mut cur: Option<(CaseCfg, usize)> = None;
    let mut ops: Vec<String> = Vec::new();
    for line in stdin.lock().lines() {
        let line = line.unwrap();
        if line.starts_with("CASE") {
            // maxconn is ours, the rest is the store configuration
            let mut maxconn = 128usize;
            let filtered: Vec<&str> = line
                .split_whitespace()
                .filter(|kv| {
                    if let Some(v) = kv.strip_prefix("maxconn=") {
                        maxconn = v.parse().unwrap();
                        false
                    } else {
                        true
                    }
                })
                .collect();
            cur = Some((parse_case(&filtered.join(" ")), maxconn));
            ops.clear();
        } else if line.trim() == "END" {
            if let Some((c, maxconn)) = cur.take() {
                writeln!(out, "case {}", c.name).unwrap();
                rt.block_on(run_case(&c, maxconn, &ops, &mut out, &scratch));
            }
        } else if !line.trim().is_empty() {
            ops.push(line);
        }
    }
    let _ = std::fs::remove_dir_all(&scratch);
    0
}
