//! Small helpers: hex, canonical frame printing, panic capture.
use bitcask::net::frame::Frame;

pub fn unhex(s: &str) -> Vec<u8> {
    let s = s.trim();
    // "<n>x<hh>" = n copies of one byte (compact form for big payloads)
    if let Some((n, b)) = s.split_once('x') {
        let n: usize = n.parse().expect("repeat count");
        return vec![u8::from_str_radix(b, 16).expect("hex byte"); n];
    }
    if s == "-" || s.is_empty() {
        return Vec::new();
    }
    let b = s.as_bytes();
    assert!(b.len() % 2 == 0, "odd hex string");
    (0..b.len() / 2)
        .map(|i| {
            let h = (b[2 * i] as char).to_digit(16).unwrap() as u8;
            let l = (b[2 * i + 1] as char).to_digit(16).unwrap() as u8;
            h * 16 + l
        })
        .collect()
}

pub fn hex(b: &[u8]) -> String {
    if b.is_empty() {
        return "-".to_string();
    }
    if b.len() > 64 {
        let mut h: u64 = 0;
        for x in b {
            h = (h * 31 + *x as u64) % 4294967296;
        }
        return format!("#{}#{}", b.len(), h);
    }
    let mut s = String::with_capacity(b.len() * 2);
    for x in b {
        s.push_str(&format!("{:02x}", x));
    }
    s
}

/// Canonical rendering shared with the Coq model (Resp/Render.v).
pub fn show_frame(f: &Frame) -> String {
    match f {
        Frame::SimpleString(s) => format!("S{}", hex(s.as_bytes())),
        Frame::Error(s) => format!("E{}", hex(s.as_bytes())),
        Frame::Integer(i) => format!("I{}", i),
        Frame::BulkString(b) => format!("B{}", hex(b)),
        Frame::Null => "N".to_string(),
        Frame::Array(items) => {
            let inner: Vec<String> = items.iter().map(show_frame).collect();
            format!("A({})", inner.join(","))
        }
    }
}

/// Parse the canonical rendering back into a frame (for the writer side).
pub fn read_frame(s: &str) -> Frame {
    let (f, rest) = read_frame_at(s);
    assert!(rest.is_empty(), "trailing text in frame: {}", rest);
    f
}

fn read_frame_at(s: &str) -> (Frame, &str) {
    let (tag, rest) = s.split_at(1);
    match tag {
        "N" => (Frame::Null, rest),
        "A" => {
            let mut rest = rest.strip_prefix('(').expect("(");
            let mut items = Vec::new();
            loop {
                if let Some(r) = rest.strip_prefix(')') {
                    return (Frame::Array(items), r);
                }
                let (f, r) = read_frame_at(rest);
                items.push(f);
                rest = r.strip_prefix(',').unwrap_or(r);
            }
        }
        _ => {
            let end = rest.find(|c| c == ',' || c == ')').unwrap_or(rest.len());
            let (body, r) = rest.split_at(end);
            let f = match tag {
                "S" => Frame::SimpleString(String::from_utf8(unhex(body)).expect("utf8")),
                "E" => Frame::Error(String::from_utf8(unhex(body)).expect("utf8")),
                "I" => Frame::Integer(body.parse().expect("i64")),
                "B" => Frame::BulkString(unhex(body).into()),
                t => panic!("bad frame tag {}", t),
            };
            (f, r)
        }
    }
}

pub fn quiet_panics() {
    std::panic::set_hook(Box::new(|_| {}));
}
