//! `sched` mode: several real threads on one store, with timed parking at the `verif` schedule
//! points, and free-running stress; prints a timed history (invocation / response instants).
//!
//! stdin:
//!   CASE <name> <store config as in store mode>
//!   pre <op> ...                          executed sequentially before the threads start
//!   thread <T> <start_delay_ms> <op> ; <op> ; ...      ops: set k v | get k | del k | merge | sleep ms
//!   park <T> <point> <ms> [nth]           thread T sleeps <ms> when it reaches <point> (the nth time, default 1st)
//!   stress <threads> <ops_per_thread> <nkeys> <seed> <merge_every_ms>
//!   timeout <ms>
//!   END
//! stdout: `H <thread> <idx> <op...> = <result> @<t_invoke_ns> <t_response_ns>` per operation, `done` or `hang`.
use std::{
    collections::HashMap,
    io::{BufRead, Write},
    path::PathBuf,
    sync::{
        atomic::{AtomicBool, AtomicUsize, Ordering},
        Arc, Mutex,
    },
    time::{Duration, Instant},
};

use bitcask::storage::{bitcask::Handle, KeyValueStorage};
use bytes::Bytes;

use crate::{
    store::{make_config, parse_case, CaseCfg},
    util::{hex, quiet_panics, unhex},
};

#[derive(Clone, Debug)]
enum Op {
    Set(Vec<u8>, Vec<u8>),
    Get(Vec<u8>),
    Del(Vec<u8>),
    Merge,
    CanMerge,
    Sleep(u64),
}

fn parse_op(s: &str) -> Option<Op> {
    let mut it = s.split_whitespace();
    match it.next()? {
        "set" => Some(Op::Set(unhex(it.next()?), unhex(it.next().unwrap_or("-")))),
        "get" => Some(Op::Get(unhex(it.next()?))),
        "del" => Some(Op::Del(unhex(it.next()?))),
        "merge" => Some(Op::Merge),
        "canmerge" => Some(Op::CanMerge),
        "sleep" => Some(Op::Sleep(it.next()?.parse().ok()?)),
        _ => None,
    }
}

fn show_op(o: &Op) -> String {
    match o {
        Op::Set(k, v) => format!("set {} {}", hex(k), hex(v)),
        Op::Get(k) => format!("get {}", hex(k)),
        Op::Del(k) => format!("del {}", hex(k)),
        Op::Merge => "merge".into(),
        Op::CanMerge => "canmerge".into(),
        Op::Sleep(ms) => format!("sleep {}", ms),
    }
}

fn exec(h: &Handle, o: &Op) -> String {
    let r = std::panic::catch_unwind(std::panic::AssertUnwindSafe(|| match o {
        Op::Set(k, v) => match h.set(Bytes::from(k.clone()), Bytes::from(v.clone())) {
            Ok(()) => "ok".to_string(),
            Err(e) => format!("err:{}", e).replace(' ', "_"),
        },
        Op::Get(k) => match h.get(Bytes::from(k.clone())) {
            Ok(Some(v)) => format!("some:{}", hex(&v)),
            Ok(None) => "none".to_string(),
            Err(e) => format!("err:{}", e).replace(' ', "_"),
        },
        Op::Del(k) => match h.del(Bytes::from(k.clone())) {
            Ok(b) => b.to_string(),
            Err(e) => format!("err:{}", e).replace(' ', "_"),
        },
        Op::Merge => match h.verif_merge() {
            Ok(()) => "ok".to_string(),
            Err(e) => format!("err:{}", e).replace(' ', "_"),
        },
        Op::CanMerge => h.verif_can_merge().to_string(),
        Op::Sleep(ms) => {
            std::thread::sleep(Duration::from_millis(*ms));
            "ok".to_string()
        }
    }));
    r.unwrap_or_else(|_| "panic".to_string())
}

struct Park {
    thread: String,
    point: String,
    ms: u64,
    nth: usize,
    seen: AtomicUsize,
}

fn splitmix(s: &mut u64) -> u64 {
    *s = s.wrapping_add(0x9E3779B97F4A7C15);
    let mut z = *s;
    z = (z ^ (z >> 30)).wrapping_mul(0xBF58476D1CE4E5B9);
    z = (z ^ (z >> 27)).wrapping_mul(0x94D049BB133111EB);
    z ^ (z >> 31)
}

fn run_case(c: &CaseCfg, lines: &[String], scratch: &PathBuf) {
    let dir = scratch.join(&c.name);
    let _ = std::fs::remove_dir_all(&dir);
    std::fs::create_dir_all(&dir).unwrap();
    bitcask::verif::set_clock(1);
    let kv = match make_config(c, &dir).open() {
        Ok(kv) => kv,
        Err(e) => {
            println!("open err:{}", e);
            println!("done");
            return;
        }
    };
    let h = kv.get_handle();
    let mut threads: Vec<(String, u64, Vec<Op>)> = Vec::new();
    let mut parks: Vec<Park> = Vec::new();
    let mut timeout_ms = 20000u64;
    for l in lines {
        let mut it = l.splitn(2, ' ');
        let kw = it.next().unwrap_or("");
        let rest = it.next().unwrap_or("");
        match kw {
            "pre" => {
                if let Some(o) = parse_op(rest) {
                    let r = exec(&h, &o);
                    println!("P {} = {}", show_op(&o), r);
                }
            }
            "thread" => {
                let mut p = rest.splitn(3, ' ');
                let name = p.next().unwrap().to_string();
                let delay: u64 = p.next().unwrap().parse().unwrap();
                let ops: Vec<Op> = p.next().unwrap_or("").split(';').filter_map(|s| parse_op(s.trim())).collect();
                threads.push((name, delay, ops));
            }
            "park" => {
                let p: Vec<&str> = rest.split_whitespace().collect();
                parks.push(Park {
                    thread: p[0].to_string(),
                    point: p[1].to_string(),
                    ms: p[2].parse().unwrap(),
                    nth: p.get(3).map(|x| x.parse().unwrap()).unwrap_or(1),
                    seen: AtomicUsize::new(0),
                });
            }
            "stress" => {
                let p: Vec<u64> = rest.split_whitespace().map(|x| x.parse().unwrap()).collect();
                let (nt, nops, nkeys, seed, merge_every) = (p[0], p[1], p[2], p[3], p[4]);
                for t in 0..nt {
                    let mut s = seed.wrapping_mul(1000).wrapping_add(t);
                    let mut ops = Vec::new();
                    for i in 0..nops {
                        let k = format!("k{}", splitmix(&mut s) % nkeys).into_bytes();
                        let x = splitmix(&mut s) % 10;
                        if x < 4 {
                            // unique values: thread, index; sizes below and above the write buffer
                            let mut v = format!("t{}i{}", t, i).into_bytes();
                            let pad = [0usize, 0, 0, 30, 200, 8200, 9000][(splitmix(&mut s) % 7) as usize];
                            v.extend(std::iter::repeat(b'.').take(pad));
                            ops.push(Op::Set(k, v));
                        } else if x < 9 {
                            ops.push(Op::Get(k));
                        } else {
                            ops.push(Op::Del(k));
                        }
                    }
                    threads.push((format!("s{}", t), 0, ops));
                }
                if merge_every > 0 {
                    let n = 30;
                    let mut ops = Vec::new();
                    for _ in 0..n {
                        ops.push(Op::Sleep(merge_every));
                        ops.push(Op::Merge);
                    }
                    threads.push(("merger".into(), 0, ops));
                }
            }
            "prober" => {
                let n: usize = rest.trim().parse().unwrap();
                threads.push(("merger-prober".into(), 0, std::iter::repeat(Op::CanMerge).take(n).collect()));
            }
            "timeout" => timeout_ms = rest.trim().parse().unwrap(),
            _ => {}
        }
    }
    let parks = Arc::new(parks);
    {
        let parks = parks.clone();
        bitcask::verif::set_point_callback(Some(Arc::new(move |name: &'static str| {
            let tn = std::thread::current().name().unwrap_or("").to_string();
            for p in parks.iter() {
                if p.point == name && p.thread == tn {
                    let k = p.seen.fetch_add(1, Ordering::SeqCst) + 1;
                    if k == p.nth {
                        std::thread::sleep(Duration::from_millis(p.ms));
                    }
                }
            }
        })));
    }
    let t0 = Instant::now();
    let out: Arc<Mutex<Vec<String>>> = Arc::new(Mutex::new(Vec::new()));
    let finished = Arc::new(AtomicUsize::new(0));
    let stop_merger = Arc::new(AtomicBool::new(false));
    let nthreads = threads.len();
    let nworkers = threads.iter().filter(|t| !t.0.starts_with("merger")).count();
    let workers_done = Arc::new(AtomicUsize::new(0));
    let mut joins = Vec::new();
    for (name, delay, ops) in threads {
        let h = h.clone();
        let out = out.clone();
        let finished = finished.clone();
        let stop_merger = stop_merger.clone();
        let workers_done = workers_done.clone();
        let is_merger = name.starts_with("merger");
        let j = std::thread::Builder::new()
            .name(name.clone())
            .spawn(move || {
                std::thread::sleep(Duration::from_millis(delay));
                for (i, o) in ops.iter().enumerate() {
                    if is_merger && stop_merger.load(Ordering::SeqCst) {
                        break;
                    }
                    let a = t0.elapsed().as_nanos();
                    let r = exec(&h, o);
                    let b = t0.elapsed().as_nanos();
                    if !matches!(o, Op::Sleep(_) | Op::CanMerge) {
                        out.lock().unwrap().push(format!("H {} {} {} = {} @{} {}", name, i, show_op(o), r, a, b));
                    }
                    if r == "panic" {
                        break;
                    }
                }
                if !is_merger {
                    if workers_done.fetch_add(1, Ordering::SeqCst) + 1 == nworkers {
                        stop_merger.store(true, Ordering::SeqCst);
                    }
                }
                finished.fetch_add(1, Ordering::SeqCst);
            })
            .unwrap();
        joins.push(j);
    }
    let deadline = Instant::now() + Duration::from_millis(timeout_ms);
    while finished.load(Ordering::SeqCst) < nthreads && Instant::now() < deadline {
        std::thread::sleep(Duration::from_millis(5));
    }
    let hung = finished.load(Ordering::SeqCst) < nthreads;
    for l in out.lock().unwrap().iter() {
        println!("{}", l);
    }
    // the ability to serve reads must not be reduced: one more get per pooled reader, with a deadline
    if !hung {
        let probes = std::cmp::max(1, c.conc) + 1;
        let ok = Arc::new(AtomicUsize::new(0));
        let hh = h.clone();
        let ok2 = ok.clone();
        std::thread::spawn(move || {
            for _ in 0..probes {
                let _ = std::panic::catch_unwind(std::panic::AssertUnwindSafe(|| hh.get(Bytes::from_static(b"__probe__"))));
                ok2.fetch_add(1, Ordering::SeqCst);
            }
        });
        let dl = Instant::now() + Duration::from_millis(3000);
        while ok.load(Ordering::SeqCst) < probes && Instant::now() < dl {
            std::thread::sleep(Duration::from_millis(5));
        }
        println!("probe {}/{}", ok.load(Ordering::SeqCst), probes);
    }
    println!("{}", if hung { "hang" } else { "done" });
    std::io::stdout().flush().unwrap();
    bitcask::verif::set_point_callback(None);
    if hung {
        // threads are stuck inside the store: leave without joining
        std::process::exit(0);
    }
    for j in joins {
        let _ = j.join();
    }
    drop(h);
    drop(kv);
    let _ = std::fs::remove_dir_all(&dir);
}

pub fn main(_args: &[String]) -> i32 {
    quiet_panics();
    let scratch = PathBuf::from(format!("/dev/shm/bcv-sched-{}", std::process::id()));
    std::fs::create_dir_all(&scratch).unwrap();
    let stdin = std::io::stdin();
    let mut cur: Option<CaseCfg> = None;
    let mut lines: Vec<String> = Vec::new();
    let _m: HashMap<u8, u8> = HashMap::new();
    for line in stdin.lock().lines() {
        let line = line.unwrap();
        if line.starts_with("CASE") {
            cur = Some(parse_case(&line));
            lines.clear();
        } else if line.trim() == "END" {
            if let Some(c) = cur.take() {
                println!("case {}", c.name);
                run_case(&c, &lines, &scratch);
            }
        } else if !line.trim().is_empty() {
            lines.push(line);
        }
    }
    let _ = std::fs::remove_dir_all(&scratch);
    0
}
