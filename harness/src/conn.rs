pub fn main(_args: &[String]) -> i32 { eprintln!("conn: not built yet"); 2 }
