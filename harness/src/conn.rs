//! `conn` mode: the real `Connection<S>` over a scripted in-memory stream.
//! stdin lines:  `R <seg-hex> <seg-hex> ...`  read frames until something that is not a frame comes back
//!               `W <frame>`                  write one frame, print the bytes that reached the stream
use std::{
    collections::VecDeque,
    io::{BufRead, Write},
    pin::Pin,
    sync::{Arc, Mutex},
    task::{Context, Poll},
};

use bitcask::net::{connection::Connection, frame, Error};
use tokio::io::{AsyncRead, AsyncWrite, ReadBuf};

use crate::util::{hex, quiet_panics, read_frame, show_frame, unhex};

/// Delivers exactly the scripted segments (split further only if the caller's buffer is smaller),
/// then EOF; collects everything written.
pub struct Scripted {
    segs: VecDeque<Vec<u8>>,
    pub written: Arc<Mutex<Vec<u8>>>,
}

impl Scripted {
    pub fn new(segs: Vec<Vec<u8>>) -> Self {
        Self {
            segs: segs.into_iter().filter(|s| !s.is_empty()).collect(),
            written: Arc::new(Mutex::new(Vec::new())),
        }
    }
}

impl AsyncRead for Scripted {
    fn poll_read(mut self: Pin<&mut Self>, _cx: &mut Context<'_>, buf: &mut ReadBuf<'_>) -> Poll<std::io::Result<()>> {
        if let Some(mut seg) = self.segs.pop_front() {
            let n = std::cmp::min(seg.len(), buf.remaining());
            buf.put_slice(&seg[..n]);
            if n < seg.len() {
                let rest = seg.split_off(n);
                self.segs.push_front(rest);
            }
        }
        Poll::Ready(Ok(()))
    }
}

impl AsyncWrite for Scripted {
    fn poll_write(self: Pin<&mut Self>, _cx: &mut Context<'_>, buf: &[u8]) -> Poll<std::io::Result<usize>> {
        self.written.lock().unwrap().extend_from_slice(buf);
        Poll::Ready(Ok(buf.len()))
    }
    fn poll_flush(self: Pin<&mut Self>, _cx: &mut Context<'_>) -> Poll<std::io::Result<()>> {
        Poll::Ready(Ok(()))
    }
    fn poll_shutdown(self: Pin<&mut Self>, _cx: &mut Context<'_>) -> Poll<std::io::Result<()>> {
        Poll::Ready(Ok(()))
    }
}

fn ferr_name(e: &frame::Error) -> &'static str {
    match e {
        frame::Error::Incomplete => "Incomplete",
        frame::Error::BadEncoding => "BadEncoding",
        frame::Error::NotInteger(_) => "NotInteger",
        frame::Error::NotUtf8(_) => "NotUtf8",
    }
}

async fn do_read(segs: Vec<Vec<u8>>) -> String {
    let mut conn = Connection::new(Scripted::new(segs));
    let mut out: Vec<String> = Vec::new();
    loop {
        match conn.read_frame().await {
            Ok(Some(f)) => out.push(format!("frame:{}", show_frame(&f))),
            Ok(None) => {
                out.push("clean".into());
                break;
            }
            Err(Error::Frame(e)) => {
                out.push(format!("err:{}", ferr_name(&e)));
                break;
            }
            Err(Error::Io(e)) if e.kind() == std::io::ErrorKind::ConnectionReset => {
                out.push("reset".into());
                break;
            }
            Err(e) => {
                out.push(format!("othererr:{}", e));
                break;
            }
        }
    }
    out.join(";")
}

async fn do_write(f: frame::Frame) -> String {
    let s = Scripted::new(vec![]);
    let w = s.written.clone();
    let mut conn = Connection::new(s);
    match conn.write_frame(&f).await {
        Ok(()) => format!("ok:{}", hex(&w.lock().unwrap())),
        Err(e) => format!("err:{}", e),
    }
}

pub fn main(_args: &[String]) -> i32 {
    quiet_panics();
    let h = std::thread::Builder::new()
        .stack_size(2 * 1024 * 1024)
        .spawn(|| {
            let rt = tokio::runtime::Builder::new_current_thread().enable_all().build().unwrap();
            let stdin = std::io::stdin();
            let stdout = std::io::stdout();
            let mut out = stdout.lock();
            for line in stdin.lock().lines() {
                let line = line.unwrap();
                let mut it = line.split_whitespace();
                let res = match it.next() {
                    Some("R") => {
                        let segs: Vec<Vec<u8>> = it.map(unhex).collect();
                        std::panic::catch_unwind(std::panic::AssertUnwindSafe(|| rt.block_on(do_read(segs))))
                            .unwrap_or_else(|_| "panic".into())
                    }
                    Some("W") => {
                        let f = read_frame(it.next().unwrap_or("N"));
                        std::panic::catch_unwind(std::panic::AssertUnwindSafe(|| rt.block_on(do_write(f))))
                            .unwrap_or_else(|_| "panic".into())
                    }
                    _ => "badline".into(),
                };
                writeln!(out, "{}", res).unwrap();
                out.flush().unwrap();
            }
        })
        .unwrap();
    h.join().unwrap();
    0
}
